#!/usr/bin/env python3
"""Generates MANIFEST.json from the table below (kept in one place so that it stays valid)."""
import json, subprocess

HOOK_COMMITS = ["c54bb58"]

CHECKS = {
 "C01": ("seqmc", "model_checking", "§8 C01, §4",
   "explicit-state BFS over operation histories on the real crate, String reference model, exact canonical state keys",
   "Every operation history over the stated alphabets (3-4 handles, chars of all four UTF-8 widths, texts straddling the inline limit, every byte index in the index profile) up to the stated depth is executed on the real crate next to std::string::String; text, length, emptiness, returned values and panics are compared after every step. Exhaustive within the bounds, so a divergence that needs a particular history (shared buffer, stale bytes, exact-16 inline) cannot hide inside the bound.",
   "Bounded: depth, pool size, alphabet (see evidence). Reference = std String executed side by side. Native engine: 64-bit layout; the big-length exploration (texts around 2^24 bytes; quick: every single operation from 20 roots, thorough: every sequence of two) runs hosted by Miri for a little- and a big-endian 32-bit target (DESIGN section 15)."),
 "C02": ("seqmc", "model_checking", "§8 C02, §4",
   "explicit-state BFS; non-target handles bit-identical before/after every step",
   "Same state graph, including failing and panicking operations; after every step every handle that was not the target must be unchanged in text, length, pointer, capacity and raw words; 'static bytes are compared with pristine copies; deep share profile (4 handles on one buffer).",
   "Bounded as C01. Isolation under refused allocations and panicking callbacks: C02's own deviation passes (states to depth 2 / 3)."),
 "C03": ("seqmc", "model_checking", "§8 C03, §4.2",
   "explicit-state BFS with a shadow heap (guards, poison, quarantine) behind the crate's allocator hooks",
   "Every step of every explored history is audited against a shadow heap: reference count equals live handles, live blocks equal referenced buffers, every noted access lies inside a live block, layouts are repeated exactly, guard zones and freed-block poison are intact; every state is closed in all rotation orders and must leave nothing allocated.",
   "Bounded as C01. Accesses are observed at the hook sites (header/as_str/as_bytes/as_slice_mut/realloc/dealloc) plus guard/poison audits for unannounced writes; a page-guard pass (reads) and, for the 32-bit-only length-on-heap layout, the big-length exploration hosted by Miri for i686 and powerpc (quick: every single operation from 20 roots; thorough: every sequence of two; DESIGN section 15)."),
 "C04": ("loomc", "model_checking", "§8 C04, §5",
   "stateless model checking with loom (DPOR over all schedules and C11 visibility choices) of the real crate built with --cfg loom; heap blocks mapped to loom cells through the access hooks",
   "All programs of the listed sets (2-3 threads, 0-3 operations each from a 17-operation alphabet, 6 set-up variants incl. threads owning every reference, differing lengths on one buffer, a handle shared by reference) are explored by loom to completion (unbounded or under the stated preemption bound). Per execution: every thread reads what its own operations produce sequentially; every buffer read/write/move/release noted by the crate is ordered by happens-before (loom cell per heap block); no use after free/double free/layout mismatch; counts equal handles after the joins; nothing allocated at the end.",
   "loom 0.7.2's memory model; 2-3 threads; small programs; accesses observed at the hook sites."),
 "C05": ("seqmc", "fault_enumeration", "§8 C05, §4.6",
   "exhaustive allocation-failure injection over every state x operation x request index (singly, in-call pairs, pairs across a follow-up)",
   "For every stored state of the explored graph and every operation in both forms, every allocator request the operation issues is refused in turn; the outcome must be Err(ReserveError) / the documented panic / a correctly absorbed failure, the target must hold its previous value (iterator-driven calls: a prefix of the items), all other handles unchanged, reference counts consistent, every follow-up operation must behave like the model and closing must leave no block.",
   "States up to the stated depth of the wide profile + seeds; refusal = null return with the old block intact."),
 "C06": ("seqmc", "model_checking", "§8 C06",
   "exhaustive sweep of ~630 boundary size values x entry points over every stored state of the explored graph",
   "Every stored state of the explored graph x every live handle x try_reserve/reserve/try_shrink_to/shrink_to/extend(size_hint) x every value of a boundary family covering 0..=usize::MAX (powers of two +-2, the 56-bit limit, isize::MAX, usize::MAX, each minus len); plus with_capacity/try_with_capacity/collect(hint). Ok must satisfy the documented postcondition; Err / clean panic must leave the exact canonical pool unchanged (texts, capacities, pointers, reference counts); follow-ups and closing must be clean.",
   "Sizes are a finite boundary family, not all 2^64 values. Requests above 1 MiB are refused by the shim instead of the OS. Thorough tier: a reduced size probe hosted by Miri for i686 and powerpc, where the size arithmetic is different code (DESIGN section 15)."),
 "C07": ("seqmc", "model_checking", "§8 C07",
   "exhaustive index enumeration (0..=len+2) x operations x storage states, String as accept/panic reference, exact-state comparison for rejected calls",
   "insert/insert_str/remove/truncate and their try_ forms at every byte index on every handle of every stored state, and on every text over the four UTF-8 widths up to a length bound in 7 storage states; panics exactly when String panics; a rejected call leaves the exact canonical state (incl. buffer bytes, capacities, reference counts) unchanged and allocates nothing; UTF-8 validity always.",
   "Texts bounded in length; reference = std String under catch_unwind."),
 "C08": ("seqmc", "model_checking", "§8 C08",
   "explicit-state BFS (every clone-like transition) + length/clone-count/drop-order sweep with exact allocator request counting",
   "Every clone, clone_from, assignment, From<&LeanString> and to_lean_string(LeanString) transition of the explored graph must issue zero allocator requests, share the pointer (heap/static) or be a bitwise copy (inline), bump the count by one and release exactly the one expected block; a sweep repeats this for lengths up to 1 MiB, 7 storage states, up to 64 clones and 3 drop orders.",
   "The shim counts only the crate's own requests; lengths above 80 bytes are swept along single histories."),
 "C09": ("seqmc", "model_checking", "§8 C09",
   "explicit-state BFS of inline-only edit histories + exhaustive constructor input sweep with allocator request counting",
   "All histories of in-place edits that stay within the inline limit (no request, storage stays inline); every constructor transition; constructor sweep over every text of the four widths up to the limit+1, every possible 16th byte, longer lengths, 15 constructors, every char, bools and every digit count of every integer type: <=16 bytes -> 0 requests and not heap, longer -> exactly one allocation with capacity == len.",
   "64-bit inline limit (16)."),
 "C10": ("seqmc", "model_checking", "§8 C10",
   "explicit-state BFS over handles derived from writable, harness-owned 'static buffers compared with pristine copies after every step",
   "All histories of the static profile (and the wide graph): from_static_str, clone, pop, truncate, clear never allocate and keep pointing at the caller's bytes; the first writing operation yields the model's text in own storage; the 'static bytes are compared byte for byte with pristine copies after every step.",
   "Static texts of 16/17/40 bytes; bounded depth."),
 "C11": ("seqmc", "model_checking", "§8 C11",
   "explicit-state BFS with capacity/pointer/request-count oracles on every transition",
   "capacity >= len for every handle after every step; with_capacity(n) >= n; successful reserve(n) gives len+n room and exclusive ownership; appends/inserts fitting the capacity reported just before on an exclusively owned target issue no allocator request and do not move the text.",
   "Bounded as C01."),
 "C12": ("seqmc", "model_checking", "§8 C12",
   "explicit-state BFS (every growth event) + exhaustive (len, additional) sweep + instrumented push loops with a simulated worst-permitted growth bound",
   "Every growth event of the explored graph and of a (length x additional x storage) sweep obeys len + len/2 <= new_cap <= max(len + len/2, len + additional); push-one-char loops of every width observe every prefix: allocator requests never exceed what the slowest permitted growth needs, bytes copied stay linear.",
   "Sweep lengths <= 200, loops up to 4 MiB."),
 "C13": ("seqmc", "model_checking", "§8 C13",
   "explicit-state BFS + exhaustive m sweep (0..=cap+2 and boundary sizes) over every stored state",
   "shrink_to_fit and shrink_to(m) for every m on every handle of every stored state, both forms: texts unchanged, capacity never grows, never below len, never below m unless it was, exactly max(len,m) or inline for heap targets whether shared or not, inline/static untouched, other handles untouched.",
   "Bounded depth of states."),
 "C14": ("enumc", "exploration", "§8 C14, §6",
   "exhaustive enumeration of bounded input domains (all 8/16/32-bit values; structured 64/128-bit families) against core::fmt::Display",
   "Every value of the 8-, 16- and (thorough) 32-bit integer types and their NonZero forms, and for 64/128-bit types every |v| below a bound, every power of ten/two +-3, type extremes, and every digit count x 4-digit window position x window value x 3 backgrounds, both signs; to_lean_string() bytes must equal Display's. The enumeration is complete over each listed domain; nothing is sampled.",
   "64/128-bit values outside the listed families are not covered (stated in the evidence). Quick tier strides the 32-bit sweep. Thorough tier: the families (plus F-div) once more hosted by Miri for i686 and powerpc, whose integer formatter is a different instantiation (DESIGN section 15)."),
 "C15": ("enumc", "exploration", "§8 C15, §6",
   "exhaustive enumeration: every char, every text up to a length bound through 6 Display carriers, every split/err position of piecewise Display impls, all 2^32 f32 bit patterns (thorough), structured f64 family",
   "to_lean_string()/try_to_lean_string() equal to_string() on every enumerated input; a Display error gives Err(Fmt) (panic in the plain form) at every error position; every f32 bit pattern (thorough) and a structured f64 family (every exponent x structured mantissas, decimal stress values) parse back to the identical bits.",
   "f64 coverage is a structured family, not all 2^64 values."),
 "C16": ("enumc", "exploration", "§8 C16, §6",
   "exhaustive enumeration of byte / u16 sequences over UTF-8 / UTF-16 class alphabets up to a length bound, std decoders as reference",
   "Every byte sequence up to length 7 (quick 6) over two 16-symbol alphabets holding a representative of every UTF-8 byte class, the same sequences around 10-17 ASCII bytes, and every u16 sequence up to length 6 over BMP/surrogate boundary values: same acceptance, byte-identical text as String's decoders.",
   "One representative per byte class; length bound."),
 "C19": ("enumc", "exploration", "§8 C19, §6",
   "exhaustive enumeration of strings, byte inputs and Unstructured seeds with the serde and arbitrary features enabled, String / &str as reference",
   "Every text up to 5 chars over an escape-heavy alphabet (+ inline-limit lengths) through serde_json both ways, a recording Serializer and the serde::de::value deserializers; every byte sequence up to length 5 over the UTF-8 class alphabet through each visitor method (String's Deserialize as reference); every Unstructured seed up to 3 bytes over all byte values (and longer over a 12-symbol alphabet) for arbitrary/arbitrary_take_rest/size_hint.",
   "Engine built with features std+serde+arbitrary; length bounds."),
 "C17": ("seqmc", "model_checking", "§8 C17",
   "explicit-state BFS with all-pairs comparison oracle per state + all-pairs representation zoo",
   "In every state: all ordered pairs of handles and every handle against str/&str/String/Cow for ==, !=, cmp, partial_cmp, <, >=, fixed-key Hash, Display/Debug/padding, Borrow/AsRef/Deref, HashMap/BTreeMap lookups by &str; zoo of texts x 9 construction routes, all pairs.",
   "Fixed-key SipHash as the hasher."),
 "C18": ("seqmc", "fault_enumeration", "§8 C18",
   "exhaustive panic-position injection into every callback over every stored state, String under the same callback as reference, shadow-heap leak accounting",
   "For every stored state: retain/try_retain with 4 predicates panicking at every call index, extend and collect with 7 item kinds and two size-hint behaviours with next() panicking at every call index, to_lean_string/try_to_lean_string on a Display panicking after every piece count; target equals what String holds after the same panic, others unchanged, counts consistent, nothing leaked after closing.",
   "States up to the stated depth + seeds."),
 "C20": ("cfgdiff", "model_checking", "§8 C20, §7",
   "the explicit-state explorer rebuilt under 6 feature x profile configurations (+ the main build); per-level state-graph digests compared; niche/Option oracles in every state; cargo check over the 16-entry feature matrix",
   "The wide state graph is explored by seven builds of the same explorer (default / no-default-features / all features x dev / release without debug assertions, plus release with assertions) with the C01-C03 oracles on; states, transitions and the sum of state-key hashes per level must be identical across all of them; in every state every handle's last byte avoids the None niche and Some(s) round-trips; every possible 16th byte and heap/static strings of many lengths go through the Option round trip; size/alignment facts are asserted; every subset of {std, serde, arbitrary} x hooks on/off must compile.",
   "Quick tier: the installed 64-bit little-endian target only. Thorough tier: the explorer (wide profile to depth 2, niche sweep, single-operation sweep on long texts) hosted by Miri for x86_64, i686, powerpc64 and powerpc (32-bit big-endian); 32-bit length-on-heap layout: see C01/C03."),
}


def main():
    checks = []
    for pid, (engine, cat, ref, technique, text, note) in sorted(CHECKS.items()):
        checks.append({
            "property_id": pid,
            "quick_cmd": f"./check {pid} --tier quick",
            "thorough_cmd": f"./check {pid} --tier thorough",
            "evidence_file": f"/verif/evidence/{pid}.json",
            "replay_cmd_template": "./check replay {path}",
            "engine": engine,
            "level_claimed": {"category": cat, "text": text, "design_ref": ref},
            "level_note": note,
            "technique": technique,
        })
    props = [json.loads(l)["id"] for l in open("/verif/properties.jsonl")]
    na = [{"property_id": p, "reason": "check not built yet in this revision (planned: see DESIGN.md section 8); will be claimed once its engine pass exists"} for p in props if p not in CHECKS]
    assert not na, na
    m = {
        "version": 1,
        "setup_cmd": "./check setup",
        "hooks": {
            "guard": "cargo feature verif-hooks",
            "enable": "engines depend on lean_string by path=/repo with features=[\"verif-hooks\"]; loomc additionally RUSTFLAGS=--cfg loom and feature loom",
            "baseline_off_cmd": "cd /repo && cargo test --workspace --no-fail-fast --offline",
            "source_commits": HOOK_COMMITS,
            "add_only": True,
        },
        "engines": [
            {"name": "seqmc", "path": "/verif/engines/src/bin/seqmc.rs", "serves_properties": sorted(p for p, v in CHECKS.items() if v[0] == "seqmc"), "kind_free_text": "explicit-state BFS over operation histories on the real crate (re-execution, exact canonical keys, shadow heap), plus per-state deviation passes"},
            {"name": "enumc", "path": "/verif/engines/src/bin/enumc.rs", "serves_properties": ["C14", "C15", "C16", "C19"], "kind_free_text": "exhaustive enumeration of bounded input domains against std as the reference"},
            {"name": "cfgdiff", "path": "/verif/check (check_cfgdiff) + seqmc", "serves_properties": ["C20"], "kind_free_text": "seqmc rebuilt under 6 build configurations; differential comparison of state-graph digests; feature-matrix cargo check"},
            {"name": "loomc", "path": "/verif/loomc/src/main.rs", "serves_properties": ["C04"], "kind_free_text": "loom (controlled scheduler, DPOR, C11 visibility) over enumerated small concurrent programs on the real crate; child processes per program range"},
        ],
        "checks": checks,
        "not_applicable": na,
        "notes": "All checks rebuild from /repo's working tree (path dependency). Known findings: /verif/known_findings.txt. Replays: /verif/replays.",
    }
    json.dump(m, open("/verif/MANIFEST.json", "w"), indent=1)
    print("checks:", len(checks), "not_applicable:", len(na))

main()
