#!/usr/bin/env python3
"""Generates MANIFEST.json from the table below (kept in one place so that it stays valid)."""
import json, subprocess

HOOK_COMMITS = ["c54bb58"]

CHECKS = {
 "C01": ("seqmc", "model_checking", "§8 C01, §4",
   "explicit-state BFS over operation histories on the real crate, String reference model, exact canonical state keys",
   "Every operation history over the stated alphabets (3-4 handles, chars of all four UTF-8 widths, texts straddling the inline limit, every byte index in the index profile) up to the stated depth is executed on the real crate next to std::string::String; text, length, emptiness, returned values and panics are compared after every step. Exhaustive within the bounds, so a divergence that needs a particular history (shared buffer, stale bytes, exact-16 inline) cannot hide inside the bound.",
   "Bounded: depth, pool size, alphabet (see evidence). Reference = std String executed side by side. 64-bit layout only."),
 "C02": ("seqmc", "model_checking", "§8 C02, §4",
   "explicit-state BFS; non-target handles bit-identical before/after every step",
   "Same state graph, including failing and panicking operations; after every step every handle that was not the target must be unchanged in text, length, pointer, capacity and raw words; 'static bytes are compared with pristine copies; deep share profile (4 handles on one buffer).",
   "Bounded as C01. Isolation under allocation failure is covered by C05's oracle."),
 "C03": ("seqmc", "model_checking", "§8 C03, §4.2",
   "explicit-state BFS with a shadow heap (guards, poison, quarantine) behind the crate's allocator hooks",
   "Every step of every explored history is audited against a shadow heap: reference count equals live handles, live blocks equal referenced buffers, every noted access lies inside a live block, layouts are repeated exactly, guard zones and freed-block poison are intact; every state is closed in all rotation orders and must leave nothing allocated.",
   "Bounded as C01. Accesses are observed at the hook sites (header/as_str/as_bytes/as_slice_mut/realloc/dealloc) plus guard/poison audits for unannounced writes."),
 "C05": ("seqmc", "fault_enumeration", "§8 C05, §4.6",
   "exhaustive allocation-failure injection over every state x operation x request index (singly, in-call pairs, pairs across a follow-up)",
   "For every stored state of the explored graph and every operation in both forms, every allocator request the operation issues is refused in turn; the outcome must be Err(ReserveError) / the documented panic / a correctly absorbed failure, the target must hold its previous value (iterator-driven calls: a prefix of the items), all other handles unchanged, reference counts consistent, every follow-up operation must behave like the model and closing must leave no block.",
   "States up to the stated depth of the wide profile + seeds; refusal = null return with the old block intact."),
}

def main():
    checks = []
    for pid, (engine, cat, ref, technique, text, note) in sorted(CHECKS.items()):
        checks.append({
            "property_id": pid,
            "quick_cmd": f"./check {pid} --tier quick",
            "thorough_cmd": f"./check {pid} --tier thorough",
            "evidence_file": f"/verif/evidence/{pid}.json",
            "replay_cmd_template": "./check replay {path}",
            "engine": engine,
            "level_claimed": {"category": cat, "text": text, "design_ref": ref},
            "level_note": note,
            "technique": technique,
        })
    props = [json.loads(l)["id"] for l in open("/verif/properties.jsonl")]
    na = [{"property_id": p, "reason": "check not built yet in this revision (planned: see DESIGN.md section 8); will be claimed once its engine pass exists"} for p in props if p not in CHECKS]
    m = {
        "version": 1,
        "setup_cmd": "./check setup",
        "hooks": {
            "guard": "cargo feature verif-hooks",
            "enable": "engines depend on lean_string by path=/repo with features=[\"verif-hooks\"]; loomc additionally RUSTFLAGS=--cfg loom and feature loom",
            "baseline_off_cmd": "cd /repo && cargo test --workspace --no-fail-fast --offline",
            "source_commits": HOOK_COMMITS,
            "add_only": True,
        },
        "engines": [
            {"name": "seqmc", "path": "/verif/engines/src/bin/seqmc.rs", "serves_properties": sorted(p for p, v in CHECKS.items() if v[0] == "seqmc"), "kind_free_text": "explicit-state BFS over operation histories on the real crate (re-execution, exact canonical keys, shadow heap), plus per-state deviation passes"},
        ],
        "checks": checks,
        "not_applicable": na,
        "notes": "All checks rebuild from /repo's working tree (path dependency). Known findings: /verif/known_findings.txt. Replays: /verif/replays.",
    }
    json.dump(m, open("/verif/MANIFEST.json", "w"), indent=1)
    print("checks:", len(checks), "not_applicable:", len(na))

main()
