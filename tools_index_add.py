#!/usr/bin/env python3
"""tools_index_add.py <seeded-name>...: add (or refresh) the rows of seeded/README.md for the given sub-agent changes from their meta.json."""
import json, sys, re
lines = open("/verif/seeded/README.md").read().split("\n")
for name in sys.argv[1:]:
    m = json.load(open(f"/verif/seeded/{name}/meta.json"))
    row = f"| {name} | {m['breaks_property']} | sub-agent | {', '.join(m['detected_by']) or '(none)'} |"
    lines = [l for l in lines if not l.startswith(f"| {name} |")]
    rows = [i for i, l in enumerate(lines) if l.startswith("| C") or l.startswith("| own")]
    at = max([i for i in rows if lines[i].split("|")[1].strip() < name and lines[i].startswith("| C")], default=rows[0] - 1) + 1
    lines.insert(at, row)
open("/verif/seeded/README.md", "w").write("\n".join(lines))
