#!/usr/bin/env python3
"""tools_recheck.py <seeded-dir-name> <checks,comma>: apply a stored seeded change to /repo, run the given quick checks
(evidence redirected), revert, and record the result in its meta.json under 'recheck'."""
import json, os, re, subprocess, sys
name, checks = sys.argv[1], sys.argv[2].split(",")
d = f"/verif/seeded/{name}"
def sh(cmd, cwd=None):
    r = subprocess.run(cmd, shell=True, cwd=cwd, stdout=subprocess.PIPE, stderr=subprocess.STDOUT, text=True)
    return r.returncode, r.stdout
rc, out = sh(f"git -C /repo apply {d}/patch.diff")
assert rc == 0, out
res = {}
try:
    for c in checks:
        rc, out = sh(f"LSVERIF_EVIDENCE_DIR=/verif/target/mut-evidence LSVERIF_REPLAY_DIR=/verif/target/mut-replays /verif/check {c}", "/verif")
        sigs = sorted(set(re.findall(r"signature=(\S+)", out)))
        res[c] = {"exit": rc, "signatures": sigs[:6]}
        print(f"{name}: check {c}: exit {rc} {sigs[:3]}")
finally:
    sh("git -C /repo checkout -- .")
meta = json.load(open(f"{d}/meta.json")) if os.path.exists(f"{d}/meta.json") else {}
commit = subprocess.run("git -C /verif rev-parse --short HEAD", shell=True, stdout=subprocess.PIPE, text=True).stdout.strip()
meta.setdefault("recheck", {})[commit] = res
meta["detected_by_now"] = sorted(set(meta.get("detected_by_now", [])) | {c for c, r in res.items() if r["exit"] == 1})
json.dump(meta, open(f"{d}/meta.json", "w"), indent=1)
