#!/bin/bash
# usage: tools_loom_mut.sh <patch> [set] [variant]
patch=$(readlink -f "$1"); set=${2:-P2x1}; var=${3:-1}
git -C /repo apply "$patch" || { echo "APPLY FAILED"; exit 2; }
(cd /verif/loomc && RUSTFLAGS="--cfg loom" CARGO_TARGET_DIR=/verif/target/loom cargo build --release --offline 2>&1 | grep -E "^error" -A5)
/verif/target/loom/release/loomc --set $set --variant $var | python3 -c "import json,sys; d=json.load(sys.stdin); print({k:d[k] for k in ['programs_done','executions','failure','secs']})"
git -C /repo checkout -- .
