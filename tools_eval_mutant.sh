#!/bin/bash
# usage: tools_eval_mutant.sh <ID> <k> [demo cargo args...]   confirm a sub-agent mutant in its own worktree
ID=$1; K=$2; shift 2
W=/tmp/mut/$ID; O=/tmp/mut/$ID-out
cd $W || exit 2
git checkout -q -- . ; git clean -fdq -e target -e Cargo.lock
cp $O/demo$K.rs tests/zz_demo$K.rs
if [ $# -gt 0 ]; then DEMO=("$@"); else DEMO=(cargo test --offline --test zz_demo$K); fi
echo "--- demo on clean tree"; "${DEMO[@]}" > /tmp/mut/$ID-out/demo$K.clean.log 2>&1; echo "rc=$?"; grep -E "^test result" /tmp/mut/$ID-out/demo$K.clean.log | tail -2
git apply $O/patch$K.diff || { echo "PATCH DOES NOT APPLY"; exit 2; }
rm tests/zz_demo$K.rs
echo "--- suite with patch"; cargo test --workspace --no-fail-fast --offline > /tmp/mut/$ID-out/suite$K.log 2>&1; echo "rc=$?"; grep -E "^test result" /tmp/mut/$ID-out/suite$K.log | awk '{p+=$4; f+=$6} END {print "passed",p,"failed",f}'
cp $O/demo$K.rs tests/zz_demo$K.rs
echo "--- demo with patch"; "${DEMO[@]}" > /tmp/mut/$ID-out/demo$K.mut.log 2>&1; echo "rc=$?"; grep -E "^test result|panicked at" /tmp/mut/$ID-out/demo$K.mut.log | tail -3
git checkout -q -- . ; git clean -fdq -e target -e Cargo.lock
