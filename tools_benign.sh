#!/bin/bash
# usage: tools_benign.sh <patch> : applies a property-PRESERVING change and runs every quick check; every check must stay quiet
patch=$(readlink -f "$1")
git -C /repo apply "$patch" || { echo "APPLY FAILED"; exit 2; }
(cd /repo && cargo test --workspace --no-fail-fast --offline 2>&1 | grep -E "^test result" | awk '{p+=$4; f+=$6} END {print "suite: passed",p,"failed",f}')
LSVERIF_EVIDENCE_DIR=/verif/target/mut-evidence LSVERIF_REPLAY_DIR=/verif/target/mut-replays /verif/run_all.sh quick 2>&1 | awk '{print $1, $2, $3}' | tr '\n' ';'
echo
grep -h "VIOLATION" /verif/target/last-C*.out | cut -c1-300 | head -5
git -C /repo checkout -- .
