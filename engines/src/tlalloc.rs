//! A tiny thread-caching allocator for the enumeration engine: glibc's arenas serialise the
//! many short-lived worker threads of `enumc` on one lock (measured: 90 % of the time in
//! futex), which made 16 threads slower than one. Small blocks come from per-thread
//! size-class free lists and are never returned to the system; everything else goes to the
//! system allocator. Used by `enumc` only (`seqmc` keeps the system allocator, and the crate
//! under test is served by the shim there).
use std::alloc::{GlobalAlloc, Layout, System};
use std::cell::UnsafeCell;

const CLASSES: usize = 9; // 16 .. 4096
const CHUNK: usize = 256 << 10;

struct Pool {
    free: [*mut u8; CLASSES],
    chunk: *mut u8,
    left: usize,
}
thread_local! {
    static POOL: UnsafeCell<Pool> = const { UnsafeCell::new(Pool { free: [std::ptr::null_mut(); CLASSES], chunk: std::ptr::null_mut(), left: 0 }) };
}

pub struct TlAlloc;

#[inline]
fn class_of(l: &Layout) -> Option<usize> {
    if l.size() <= 4096 && l.align() <= 16 {
        let c = l.size().max(16).next_power_of_two();
        Some(c.trailing_zeros() as usize - 4)
    } else {
        None
    }
}

unsafe impl GlobalAlloc for TlAlloc {
    unsafe fn alloc(&self, l: Layout) -> *mut u8 {
        match class_of(&l) {
            None => unsafe { System.alloc(l) },
            Some(ci) => POOL.with(|p| {
                let p = unsafe { &mut *p.get() };
                let head = p.free[ci];
                if !head.is_null() {
                    p.free[ci] = unsafe { *(head as *mut *mut u8) };
                    return head;
                }
                let size = 16usize << ci;
                if p.left < size {
                    p.chunk = unsafe { System.alloc(Layout::from_size_align_unchecked(CHUNK, 4096)) };
                    if p.chunk.is_null() {
                        return std::ptr::null_mut();
                    }
                    p.left = CHUNK;
                }
                let r = p.chunk;
                p.chunk = unsafe { p.chunk.add(size) };
                p.left -= size;
                r
            }),
        }
    }
    unsafe fn dealloc(&self, ptr: *mut u8, l: Layout) {
        match class_of(&l) {
            None => unsafe { System.dealloc(ptr, l) },
            Some(ci) => POOL.with(|p| {
                let p = unsafe { &mut *p.get() };
                unsafe { *(ptr as *mut *mut u8) = p.free[ci] };
                p.free[ci] = ptr;
            }),
        }
    }
}
