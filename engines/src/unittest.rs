//! Renders a history as a plain `#[test]` that replays it with the public API only, next to a
//! `String` model, without the explorer (replay files carry it as `unit_test`).
use crate::pool::*;

fn lit(s: &str) -> String {
    format!("{s:?}")
}

fn idx_expr(m: &str, ix: Idx) -> String {
    match ix {
        Idx::Zero => "0".into(),
        Idx::One => format!("{m}.chars().next().map_or(0, |c| c.len_utf8())"),
        Idx::Mid => format!("{{ let mut n = {m}.len() / 2; while !{m}.is_char_boundary(n) {{ n -= 1; }} n }}"),
        Idx::Last => format!("{m}.char_indices().next_back().map_or(0, |(i, _)| i)"),
        Idx::Len => format!("{m}.len()"),
        Idx::Past => format!("{m}.len() + 1"),
        Idx::Inside => format!("(0..{m}.len()).find(|&n| !{m}.is_char_boundary(n)).unwrap()"),
        Idx::Abs(n) => format!("{n}"),
    }
}

/// One or more statements operating on `s<i>: Option<LeanString>` and `m<i>: Option<String>`.
fn render(op: Op, empty: Option<usize>) -> String {
    use Op::*;
    let e = empty.unwrap_or(0);
    let both = |i: u8, call: &str| format!("call!(s{i}, m{i}, {call});");
    let src = |t: u8| texts(|x| lit(&x.src[t as usize]));
    match op {
        New => format!("s{e} = Some(LeanString::new()); m{e} = Some(String::new());"),
        FromStr(t) | FromString(t) | Collect(t) | ToLeanDisplay(t) | ToLeanSwallow(t) => format!("s{e} = Some(LeanString::from({0})); m{e} = Some(String::from({0}));", src(t)),
        Conv(k, t) => format!("s{e} = Some(LeanString::from({0})); m{e} = Some(String::from({0})); // via {1}", lit(&conv_text(k, t)), CONV_NAMES[k as usize]),
        FromStatic(t) => format!("s{e} = Some(LeanString::from_static_str({0})); m{e} = Some(String::from({0}));", texts(|x| lit(x.statics[t as usize]))),
        WithCap(c) => format!("s{e} = Some(LeanString::with_capacity({})); m{e} = Some(String::new());", texts(|x| x.caps[c as usize])),
        WithCapAbs(n) => format!("s{e} = Some(LeanString::with_capacity({n})); m{e} = Some(String::new());"),
        Clone(i) | FromRef(i) | ToLeanClone(i) => format!("s{e} = s{i}.clone(); m{e} = m{i}.clone();"),
        CloneFrom(s, d) => format!("s{d}.as_mut().unwrap().clone_from(s{s}.as_ref().unwrap()); m{d}.as_mut().unwrap().clone_from(m{s}.as_ref().unwrap());"),
        Assign(s, d) => format!("s{d} = s{s}.clone(); m{d} = m{s}.clone();"),
        Drop(i) => format!("s{i} = None; m{i} = None;"),
        Push(i, c) => both(i, &format!("push({:?})", CHARS[c as usize])),
        PushStr(i, s) => both(i, &format!("push_str({})", texts(|x| lit(&x.strs[s as usize])))),
        PushAscii(i, n) => both(i, &format!("push_str({})", lit(ascii(n as usize)))),
        Pop(i) => both(i, "pop()"),
        Remove(i, ix) => format!("{{ let n = {}; call!(s{i}, m{i}, remove(n)); }}", idx_expr(&format!("m{i}.as_ref().unwrap()"), ix)),
        Insert(i, ix, c) => format!("{{ let n = {}; call!(s{i}, m{i}, insert(n, {:?})); }}", idx_expr(&format!("m{i}.as_ref().unwrap()"), ix), CHARS[c as usize]),
        InsertStr(i, ix, s) => format!("{{ let n = {}; call!(s{i}, m{i}, insert_str(n, {})); }}", idx_expr(&format!("m{i}.as_ref().unwrap()"), ix), texts(|x| lit(&x.strs[s as usize]))),
        Truncate(i, ix) => format!("{{ let n = {}; call!(s{i}, m{i}, truncate(n)); }}", idx_expr(&format!("m{i}.as_ref().unwrap()"), ix)),
        TruncateAbs(i, n) => both(i, &format!("truncate({n})")),
        Clear(i) => both(i, "clear()"),
        Retain(i, k) => {
            let pred = match k {
                0 => "|_| true",
                1 => "|_| false",
                2 => "|c: char| !c.is_ascii()",
                _ => "{ let mut n = 0; move |_| { n += 1; n % 2 == 1 } }",
            };
            format!("call!(s{i}, m{i}, retain({pred}));")
        }
        RetainPanic(i, k) => format!("call!(s{i}, m{i}, retain({{ let mut n = 0; move |_| {{ n += 1; if n == {k} {{ panic!(\"predicate panics\") }} n % 2 == 1 }} }}));"),
        Reserve(i, k) => format!("s{i}.as_mut().unwrap().reserve({});", texts(|x| x.reserves[k as usize])),
        ReserveHuge(i, w) => format!("assert!(s{i}.as_mut().unwrap().try_reserve({}usize).is_err());", huge_value(w)),
        ShrinkTo(i, k) => format!("{{ let h = s{i}.as_mut().unwrap(); let m = {}; h.shrink_to(m); }}", ["0", "h.len()", "17", "h.capacity().saturating_sub(1)"][k as usize]),
        ShrinkFit(i) => format!("s{i}.as_mut().unwrap().shrink_to_fit();"),
        ExtendChars(i) | ExtendFiltered(i) | ExtendLying(i, _) => both(i, "extend(['a', '€'])"),
        ExtendStrs(i) => both(i, "extend([\"b\", \"cd\"])"),
        ExtendLean(d, s) if d != s => format!("{{ let text = m{s}.clone().unwrap(); s{d}.as_mut().unwrap().extend([s{s}.as_ref().unwrap()].into_iter().cloned()); m{d}.as_mut().unwrap().push_str(&text); }}"),
        ExtendLean(d, s) => format!("{{ let item = s{s}.clone().unwrap(); let text = m{s}.clone().unwrap(); s{d}.as_mut().unwrap().extend([item]); m{d}.as_mut().unwrap().push_str(&text); }}"),
        ExtendHuge(i, n) => format!("{{ let items: Vec<char> = ['x', 'é'].into_iter().take({n}).collect(); struct Huge<I>(I); impl<I: Iterator> Iterator for Huge<I> {{ type Item = I::Item; fn next(&mut self) -> Option<I::Item> {{ self.0.next() }} fn size_hint(&self) -> (usize, Option<usize>) {{ (1 << 60, None) }} }} s{i}.as_mut().unwrap().extend(Huge(items.clone().into_iter())); m{i}.as_mut().unwrap().extend(items); }}"),
        AddAssign(i) => format!("*s{i}.as_mut().unwrap() += \"xy\"; *m{i}.as_mut().unwrap() += \"xy\";"),
        Add(i) => format!("s{i} = s{i}.take().map(|x| x + \"xy\"); m{i} = m{i}.take().map(|x| x + \"xy\");"),
        WriteFmtBad(i, kind) => format!("{{ use std::fmt::Write; struct Bad(u8); impl std::fmt::Display for Bad {{ fn fmt(&self, f: &mut std::fmt::Formatter<'_>) -> std::fmt::Result {{ f.write_str(\"[1|\")?; if self.0 == 0 {{ Err(std::fmt::Error) }} else {{ panic!(\"display panics\") }} }} }} call!(s{i}, m{i}, write_fmt(format_args!(\"<{{}}>{{}}{{}}\", 5, Bad({kind}), \"tail\")).is_ok()); }}"),
        WriteFmt(i) => format!("{{ use std::fmt::Write; write!(s{i}.as_mut().unwrap(), \"{{}}{{}}\", 7, \"w\").unwrap(); write!(m{i}.as_mut().unwrap(), \"{{}}{{}}\", 7, \"w\").unwrap(); }}"),
    }
}

pub fn unit_test(name: &str, k: usize, ops: &[Op]) -> String {
    let mut out = String::new();
    out.push_str("// Stand-alone replay (public API only); put it under tests/ of the crate and run `cargo test`.\n");
    out.push_str("use lean_string::LeanString;\n\n");
    out.push_str("// applies the same call to the LeanString and to the String model; both may panic (bad index,\n// panicking predicate) - then both must\n");
    out.push_str("macro_rules! call {\n    ($s:expr, $m:expr, $($call:tt)*) => {{\n        let a = std::panic::catch_unwind(std::panic::AssertUnwindSafe(|| { let r = $s.as_mut().unwrap().$($call)*; format!(\"{r:?}\") }));\n        let b = std::panic::catch_unwind(std::panic::AssertUnwindSafe(|| { let r = $m.as_mut().unwrap().$($call)*; format!(\"{r:?}\") }));\n        assert_eq!(a.is_ok(), b.is_ok(), \"one of LeanString / String panicked, the other did not\");\n        if let (Ok(a), Ok(b)) = (a, b) { assert_eq!(a, b, \"returned values differ\"); }\n    }};\n}\n\n");
    out.push_str(&format!("#[test]\n#[allow(unused_assignments, unused_mut, unused_variables)]\nfn {name}() {{\n"));
    for i in 0..k {
        out.push_str(&format!("    let (mut s{i}, mut m{i}): (Option<LeanString>, Option<String>) = (None, None);\n"));
    }
    // track which slots are occupied to know where constructors put their value
    let mut occupied = vec![false; k];
    for (n, &op) in ops.iter().enumerate() {
        let empty = occupied.iter().position(|o| !o);
        out.push_str(&format!("    // step {}: {op:?}\n    {}\n", n + 1, render(op, empty)));
        if op.is_ctor() || op.is_clone() {
            if let Some(e) = empty {
                occupied[e] = true;
            }
        }
        if let Op::Drop(i) = op {
            occupied[i as usize] = false;
        }
        for i in 0..k {
            out.push_str(&format!("    assert_eq!(s{i}.as_deref(), m{i}.as_deref(), \"slot {i} after step {}\");\n", n + 1));
        }
    }
    out.push_str("}\n");
    out
}
