//! Alphabets, profiles and seed prefixes (DESIGN §4.4).
use crate::explore::{History, Profile};
use crate::pool::*;

fn per_slot_wide(i: u8, k: u8, v: &mut Vec<Op>) {
    use Op::*;
    v.push(Clone(i));
    v.push(FromRef(i));
    v.push(ToLeanClone(i));
    for j in 0..k {
        if j != i {
            v.push(CloneFrom(i, j));
            v.push(Assign(i, j));
        }
    }
    v.push(Drop(i));
    for c in 0..4 {
        v.push(Push(i, c));
    }
    for s in 0..3 {
        v.push(PushStr(i, s));
    }
    v.push(Pop(i));
    for ix in [Idx::Zero, Idx::One, Idx::Mid, Idx::Last, Idx::Len, Idx::Inside] {
        v.push(Remove(i, ix));
    }
    for ix in [Idx::Zero, Idx::Mid, Idx::Len] {
        for c in [0u8, 2] {
            v.push(Insert(i, ix, c));
        }
        for s in 0..3 {
            v.push(InsertStr(i, ix, s));
        }
    }
    v.push(Insert(i, Idx::Past, 0));
    v.push(Insert(i, Idx::Inside, 1));
    v.push(InsertStr(i, Idx::Past, 1));
    v.push(InsertStr(i, Idx::Past, 0));
    v.push(InsertStr(i, Idx::Inside, 0));
    for ix in [Idx::Zero, Idx::One, Idx::Mid, Idx::Last, Idx::Len, Idx::Past, Idx::Inside] {
        v.push(Truncate(i, ix));
    }
    v.push(Clear(i));
    for r in 0..4 {
        v.push(Retain(i, r));
    }
    for r in 0..4 {
        v.push(Reserve(i, r));
    }
    for r in 0..4 {
        v.push(ShrinkTo(i, r));
    }
    v.push(ShrinkFit(i));
    v.push(ExtendChars(i));
    v.push(ExtendStrs(i));
    v.push(ExtendFiltered(i));
    for h in 0..LYING_HINTS.len() as u8 {
        v.push(ExtendLying(i, h));
    }
    for j in 0..k {
        v.push(ExtendLean(i, j));
    }
    v.push(AddAssign(i));
    v.push(Add(i));
    v.push(WriteFmt(i));
    v.push(WriteFmtBad(i, 0));
    v.push(WriteFmtBad(i, 1));
    for w in 0..3 {
        v.push(ReserveHuge(i, w));
    }
    for n in 0..2 {
        v.push(ExtendHuge(i, n));
    }
    for kk in 1..=2 {
        v.push(RetainPanic(i, kk));
    }
}

fn seed_only(k: u8, v: &mut Vec<Op>) {
    use Op::*;
    for i in 0..k {
        for n in [3u8, 5, 9, 12, 13, 20] {
            v.push(TruncateAbs(i, n));
            v.push(PushAscii(i, n));
        }
    }
    for n in [25u8, 40, 100] {
        v.push(WithCapAbs(n));
    }
}

pub fn wide(form: Form) -> Profile {
    use Op::*;
    let k = 3u8;
    let mut v = vec![New];
    for t in 0..5 {
        v.push(FromStr(t));
    }
    v.extend([FromString(3), FromString(4), Collect(2), Collect(4), ToLeanDisplay(1), ToLeanDisplay(4)]);
    for t in 0..3 {
        v.push(FromStatic(t));
    }
    for c in 0..3 {
        v.push(WithCap(c));
    }
    for i in 0..k {
        per_slot_wide(i, k, &mut v);
    }
    let n_enabled = v.len();
    seed_only(k, &mut v);
    Profile { name: if form == Form::Plain { "wide" } else { "wide-try" }, k: k as usize, table: v, n_enabled, form, limits: WIDE_LIMITS }
}

pub fn statics() -> Profile {
    use Op::*;
    let k = 3u8;
    let mut v = vec![];
    for t in 0..3 {
        v.push(FromStatic(t));
    }
    v.push(FromStr(4));
    for i in 0..k {
        v.push(Clone(i));
        for j in 0..k {
            if j != i {
                v.push(CloneFrom(i, j));
            }
        }
        v.push(Drop(i));
        v.extend([Push(i, 0), Push(i, 3), PushStr(i, 0), PushStr(i, 2), Pop(i), Remove(i, Idx::Zero), Remove(i, Idx::Last), Insert(i, Idx::Zero, 2), Insert(i, Idx::Len, 0), InsertStr(i, Idx::Mid, 1)]);
        for ix in [Idx::Zero, Idx::One, Idx::Mid, Idx::Last] {
            v.push(Truncate(i, ix));
        }
        v.extend([Clear(i), Retain(i, 0), Retain(i, 2), Reserve(i, 0), Reserve(i, 1), Reserve(i, 3), ShrinkFit(i), ShrinkTo(i, 2), ExtendChars(i), AddAssign(i), ReserveHuge(i, 0), RetainPanic(i, 1)]);
    }
    let n_enabled = v.len();
    seed_only(k, &mut v);
    Profile { name: "static", k: k as usize, table: v, n_enabled, form: Form::Plain, limits: WIDE_LIMITS }
}

pub fn share() -> Profile {
    use Op::*;
    let k = 4u8;
    let mut v = vec![];
    for i in 0..k {
        v.push(Clone(i));
        for j in 0..k {
            if j != i {
                v.push(CloneFrom(i, j));
            }
        }
        v.push(Drop(i));
        for ix in [Idx::Zero, Idx::Mid, Idx::Last] {
            v.push(Truncate(i, ix));
        }
        v.extend([Pop(i), Clear(i), Push(i, 0), Push(i, 2), Insert(i, Idx::Zero, 0), Remove(i, Idx::Zero), Retain(i, 3), Reserve(i, 1), Reserve(i, 3), ShrinkFit(i), ShrinkTo(i, 2), PushStr(i, 2)]);
    }
    let n_enabled = v.len();
    v.extend([FromStr(4), FromStr(2)]);
    seed_only(k, &mut v);
    Profile { name: "share", k: k as usize, table: v, n_enabled, form: Form::Plain, limits: WIDE_LIMITS }
}

pub fn inline_only() -> Profile {
    use Op::*;
    let k = 2u8;
    let mut v = vec![New];
    for t in 0..4 {
        v.push(FromStr(t));
    }
    v.push(FromStatic(0));
    v.push(WithCap(0));
    for i in 0..k {
        v.push(Clone(i));
        v.push(CloneFrom(i, 1 - i));
        v.push(Drop(i));
        for c in 0..4 {
            v.push(Push(i, c));
        }
        v.push(PushStr(i, 1));
        v.push(Pop(i));
        for ix in [Idx::Zero, Idx::One, Idx::Mid, Idx::Last] {
            v.push(Remove(i, ix));
        }
        for ix in [Idx::Zero, Idx::Mid, Idx::Len] {
            for c in 0..4 {
                v.push(Insert(i, ix, c));
            }
        }
        v.push(InsertStr(i, Idx::Mid, 1));
        for ix in [Idx::Zero, Idx::One, Idx::Mid, Idx::Last] {
            v.push(Truncate(i, ix));
        }
        v.push(Clear(i));
        for r in 0..4 {
            v.push(Retain(i, r));
        }
        v.push(Reserve(i, 1));
        v.push(ShrinkFit(i));
    }
    let n_enabled = v.len();
    seed_only(k, &mut v);
    Profile { name: "inline", k: k as usize, table: v, n_enabled, form: Form::Plain, limits: Limits { pre: INLINE + 1, post: Some(INLINE) } }
}

/// every byte index 0..=len+2 for insert / insert_str / remove / truncate
pub fn index() -> Profile {
    use Op::*;
    let k = 2u8;
    let mut v = vec![FromStr(1), FromStr(3), FromStr(4), FromStatic(2)];
    for i in 0..k {
        v.push(Clone(i));
        v.push(Drop(i));
        v.push(Push(i, 2));
        for n in 0..=(LMAX + 2) as u8 {
            v.push(Insert(i, Idx::Abs(n), 1));
            v.push(InsertStr(i, Idx::Abs(n), 1));
            v.push(Remove(i, Idx::Abs(n)));
            v.push(Truncate(i, Idx::Abs(n)));
        }
    }
    let n_enabled = v.len();
    seed_only(k, &mut v);
    Profile { name: "index", k: k as usize, table: v, n_enabled, form: Form::Plain, limits: Limits { pre: 2 * INLINE, post: None } }
}

/// Seed prefixes: states a shallow search does not reach ("start from non-initial states").
pub fn seeds(p: &Profile) -> Vec<History> {
    use Op::*;
    let all: Vec<Vec<Op>> = vec![
        // three handles on one buffer, three different lengths
        vec![FromStr(4), Clone(0), Clone(0), Pop(1), Truncate(2, Idx::Mid)],
        // a buffer grown by two reallocations, then truncated to 5 bytes
        vec![FromStr(4), PushStr(0, 2), PushStr(0, 2), TruncateAbs(0, 5)],
        // the same, shared
        vec![FromStr(4), PushStr(0, 2), PushStr(0, 2), TruncateAbs(0, 5), Clone(0)],
        // a static text truncated below the inline limit and cloned
        vec![FromStatic(2), TruncateAbs(0, 9), Clone(0)],
        vec![FromStatic(2), Clone(0), TruncateAbs(1, 12)],
        // a full inline string ending in each UTF-8 width
        vec![FromStr(2), Push(0, 0)],
        vec![FromStr(3)],
        vec![New, PushAscii(0, 13), Push(0, 2)],
        vec![New, PushAscii(0, 12), Push(0, 3)],
        // a full inline string, cloned, then popped (stale 16th byte)
        vec![New, PushAscii(0, 12), Push(0, 3), Clone(0), Pop(0)],
        // heap string with capacity >> len, shared
        vec![WithCap(2), PushAscii(0, 5), Clone(0)],
        vec![WithCapAbs(100), PushAscii(0, 20), Clone(0), Clone(0)],
        // used to share, unique again, stale tail
        vec![FromStr(4), Clone(0), Truncate(0, Idx::Mid), Drop(1)],
        vec![FromStr(4), Clone(0), Pop(1), Drop(0)],
        // static cleared then pushed; cloned then one side written
        vec![FromStatic(1), Clear(0), Push(0, 1)],
        vec![FromStatic(2), Clone(0), Push(1, 0)],
        // heap shrunk to fit; inline -> heap -> truncated back
        vec![WithCap(2), PushAscii(0, 20), ShrinkFit(0)],
        vec![FromStr(2), PushStr(0, 2), TruncateAbs(0, 3)],
        // two buffers, one of them shared
        vec![FromStr(4), FromStr(4), Clone(0)],
        // len = cap - 1, shared
        vec![WithCapAbs(25), PushAscii(0, 20), PushStr(0, 1), PushStr(0, 1), Clone(0)],
        // over-allocated, len*1.5 > m cases for shrink
        vec![WithCapAbs(40), PushAscii(0, 20), Clone(0)],
        // after a refused reservation on a shared buffer
        vec![FromStr(4), Clone(0), ReserveHuge(1, 0)],
        vec![FromStr(4), Clone(0), ExtendHuge(1, 0)],
        // a retain that panicked half way on a shared buffer
        vec![FromStr(4), Clone(0), RetainPanic(1, 2)],
        // un-shared by a small reservation: an exclusively owned heap buffer whose capacity is
        // below the inline size
        vec![FromStr(4), Clone(0), TruncateAbs(1, 3), Reserve(1, 1)],
        vec![FromStr(4), Clone(0), TruncateAbs(1, 3), Reserve(1, 1), Drop(0)],
        vec![FromStr(4), Clone(0), TruncateAbs(1, 9), Push(1, 0)],
    ];
    let mut out = Vec::new();
    for ops in all {
        if ops.iter().all(|o| p.table.contains(o)) && ops.iter().all(|o| o.target().is_none_or(|t| t < p.k)) {
            out.push(p.hist(&ops));
        }
    }
    out
}
