//! Level-synchronous breadth-first exploration of operation histories on the real crate
//! (DESIGN §4.5). A state is represented by one history that reaches it; successors are
//! evaluated by re-executing the history plus one operation on fresh objects.
use crate::oracle::{self, StepRec, Viol};
use crate::pool::*;
use crate::shim;
use std::collections::{BTreeMap, HashSet};
use std::sync::Mutex;
use crate::Counter64 as AtomicU64;
use std::sync::atomic::{AtomicBool, AtomicUsize, Ordering};
use std::time::Instant;

pub type OpId = u16;
pub type History = Vec<OpId>;

#[derive(Clone)]
pub struct Profile {
    pub name: &'static str,
    pub k: usize,
    /// operation table; the first `n_enabled` entries are explored, the rest is seed-only
    pub table: Vec<Op>,
    pub n_enabled: usize,
    pub form: Form,
    pub limits: Limits,
}

impl Profile {
    pub fn id_of(&self, op: Op) -> OpId {
        self.table.iter().position(|&o| o == op).unwrap_or_else(|| panic!("op {op:?} not in table of profile {}", self.name)) as OpId
    }
    pub fn hist(&self, ops: &[Op]) -> History {
        ops.iter().map(|&o| self.id_of(o)).collect()
    }
    pub fn render(&self, h: &[OpId]) -> Vec<String> {
        h.iter().map(|&i| format!("{:?}", self.table[i as usize])).collect()
    }
}

#[derive(Clone, Copy, Default)]
pub struct Props {
    pub c01: bool,
    pub c02: bool,
    pub c03: bool,
    pub c08: bool,
    pub c09: bool,
    pub c10: bool,
    pub c11: bool,
    pub c12: bool,
    pub c13: bool,
    pub c17: bool,
    pub c20: bool,
}

impl Props {
    pub fn only(id: &str) -> Props {
        let mut p = Props::default();
        match id {
            "C01" => p.c01 = true,
            "C02" => p.c02 = true,
            "C03" => p.c03 = true,
            "C08" => p.c08 = true,
            "C09" => p.c09 = true,
            "C10" => p.c10 = true,
            "C11" => p.c11 = true,
            "C12" => p.c12 = true,
            "C13" => p.c13 = true,
            "C17" => p.c17 = true,
            "C20" => {
                p.c01 = true;
                p.c02 = true;
                p.c03 = true;
                p.c20 = true;
            }
            _ => {}
        }
        p
    }
    pub fn all() -> Props {
        Props { c01: true, c02: true, c03: true, c08: true, c09: true, c10: true, c11: true, c12: true, c13: true, c17: true, c20: true }
    }
}

pub fn step_oracles(props: &Props, rec: &StepRec, p: &Pool, out: &mut Vec<Viol>) {
    if props.c01 {
        oracle::c01(rec, p, out);
    }
    if props.c02 {
        oracle::c02(rec, p, out);
    }
    if props.c03 {
        oracle::c03(rec, p, out);
    }
    if props.c08 {
        oracle::c08(rec, p, out);
    }
    if props.c09 {
        oracle::c09(rec, p, out);
    }
    if props.c10 {
        oracle::c10(rec, p, out);
    }
    if props.c11 {
        oracle::c11(rec, p, out);
    }
    if props.c12 {
        oracle::c12(rec, p, out);
    }
    if props.c13 {
        oracle::c13(rec, p, out);
    }
}

/// Does the real pool still agree with the model? (needed to keep exploring a path)
pub fn conforms(rec: &StepRec, p: &Pool) -> bool {
    let mut v = Vec::new();
    oracle::c01(rec, p, &mut v);
    v.is_empty()
}

#[derive(Clone, Debug)]
pub struct Found {
    pub prop: &'static str,
    pub sig: String,
    pub detail: String,
    pub profile: &'static str,
    pub history: Vec<String>,
    pub hist_ids: History,
    pub extra: String,
    pub count: u64,
}

#[derive(Default)]
pub struct Findings {
    pub map: Mutex<BTreeMap<String, Found>>,
}

impl Findings {
    pub fn add(&self, prof: &Profile, hist: &[OpId], v: &Viol, op_kind: &str, tkind: &str, extra: &str) {
        let sig = format!("{}/{}/{}/{}", v.prop, v.oracle, op_kind, tkind);
        let mut m = self.map.lock().unwrap();
        match m.get_mut(&sig) {
            Some(f) => {
                f.count += 1;
                if (hist.len(), hist) < (f.hist_ids.len(), &f.hist_ids[..]) {
                    f.hist_ids = hist.to_vec();
                    f.history = prof.render(hist);
                    f.detail = v.detail.clone();
                    f.extra = extra.to_string();
                    f.profile = prof.name;
                }
            }
            None => {
                m.insert(sig.clone(), Found { prop: v.prop, sig, detail: v.detail.clone(), profile: prof.name, history: prof.render(hist), hist_ids: hist.to_vec(), extra: extra.to_string(), count: 1 });
            }
        }
    }
    pub fn is_empty(&self) -> bool {
        self.map.lock().unwrap().is_empty()
    }
}

pub fn replay(prof: &Profile, hist: &[OpId]) -> Pool {
    shim::with(|s| s.reset());
    let mut p = Pool::new(prof.k);
    for &id in hist {
        let _ = exec(&mut p, prof.table[id as usize], prof.form);
    }
    p
}

pub fn enabled(prof: &Profile, p: &Pool) -> Vec<OpId> {
    (0..prof.n_enabled).filter(|&i| op_enabled(p, prof.table[i], &prof.limits)).map(|i| i as OpId).collect()
}

#[derive(Clone, Debug, Default)]
pub struct LevelStat {
    pub level: usize,
    pub new_states: u64,
    pub transitions: u64,
    pub digest: u64,
    pub pruned: u64,
    pub secs: f64,
    pub complete: bool,
}

#[derive(Default)]
pub struct RunResult {
    pub levels: Vec<LevelStat>,
    /// representative histories of the stored levels (level 0 = roots)
    pub stored: Vec<Vec<History>>,
    pub states: u64,
    pub transitions: u64,
    pub state_probes: u64,
    pub capped: bool,
    pub outcomes: BTreeMap<String, u64>,
    pub roots_rejected: u64,
}

pub struct Budget {
    pub start: Instant,
    pub wall_secs: f64,
    pub max_states: u64,
}

impl Budget {
    /// wall-clock cap or resident-set cap (LSVERIF_RSS_GB, default 40) reached: the current level
    /// is abandoned and reported as capped (never as explored)
    pub fn exceeded(&self) -> bool {
        if self.start.elapsed().as_secs_f64() > self.wall_secs {
            return true;
        }
        static CAP_PAGES: std::sync::OnceLock<u64> = std::sync::OnceLock::new();
        let cap = *CAP_PAGES.get_or_init(|| {
            // default: 40 GiB or 55 % of the machine's memory, whichever is smaller
            let total_gb = std::fs::read_to_string("/proc/meminfo").ok().and_then(|m| m.lines().find(|l| l.starts_with("MemTotal:")).and_then(|l| l.split_whitespace().nth(1).and_then(|x| x.parse::<f64>().ok()))).map(|kb| kb / (1u64 << 20) as f64).unwrap_or(64.0);
            let gb: f64 = std::env::var("LSVERIF_RSS_GB").ok().and_then(|s| s.parse().ok()).unwrap_or((total_gb * 0.55).min(40.0));
            (gb * (1u64 << 30) as f64 / 4096.0) as u64
        });
        match std::fs::read_to_string("/proc/self/statm") {
            Ok(s) => s.split_whitespace().nth(1).and_then(|x| x.parse::<u64>().ok()).is_some_and(|rss| rss > cap),
            Err(_) => false,
        }
    }
}

pub struct Visited {
    shards: Vec<Mutex<HashSet<u128>>>,
}
impl Visited {
    pub fn new() -> Self {
        Visited { shards: (0..256).map(|_| Mutex::new(HashSet::new())).collect() }
    }
    pub fn insert(&self, k: u128) -> bool {
        self.shards[(k as usize) & 255].lock().unwrap().insert(k)
    }
    pub fn len(&self) -> u64 {
        self.shards.iter().map(|s| s.lock().unwrap().len() as u64).sum()
    }
}

fn outcome_class(rec: &StepRec) -> String {
    let o = match &rec.lean {
        Outcome::Done(_) => "ok",
        Outcome::ReserveErr => "reserve-error",
        Outcome::Panic(m) if m == ALLOC_MSG => "alloc-panic",
        Outcome::Panic(_) => "panic",
    };
    format!("{}/{}/{}", rec.op.kind_name(), oracle::target_kind(rec), o)
}

pub struct Explorer<'a> {
    pub prof: &'a Profile,
    pub props: Props,
    pub threads: usize,
    pub findings: &'a Findings,
    pub budget: &'a Budget,
    /// close every new state in all K rotation orders (C03)
    pub close_rotations: bool,
    /// VERIF_SEED: only rotates the order in which work is handed out
    pub seed: u64,
    /// keep the representative histories of the last level too (needed when per-state passes
    /// are to run on every state up to the full depth)
    pub store_last: bool,
    /// `--part k/n`: this process evaluates only every n-th frontier item of the last level
    pub part: Option<(usize, usize)>,
}

impl<'a> Explorer<'a> {
    /// Per new state: state-level oracles. Runs on a fresh re-execution of `hist`.
    fn state_probe(&self, hist: &[OpId]) -> u64 {
        let mut n = 0;
        let mut viols = Vec::new();
        if self.props.c17 || self.props.c20 {
            let p = replay(self.prof, hist);
            if self.props.c17 {
                if let Err(m) = quiet(|| oracle::c17_state(&p, "state", &mut viols)) {
                    viols.push(Viol { prop: "C17", oracle: "probe-panic", detail: format!("comparison/format/map operations panicked: {m}") });
                }
            }
            if self.props.c20 {
                if let Err(m) = quiet(|| oracle::c20_state(&p, "state", &mut viols)) {
                    viols.push(Viol { prop: "C20", oracle: "probe-panic", detail: format!("Option round trip panicked: {m}") });
                }
            }
            n += 1;
        }
        if self.close_rotations && self.props.c03 {
            for rot in 1..self.prof.k {
                let mut p = replay(self.prof, hist);
                if let Err(m) = quiet(|| p.close(rot)) {
                    viols.push(Viol { prop: "C03", oracle: "close-panic", detail: format!("dropping the handles panicked: {m}") });
                }
                oracle::c03_closed(&format!("close(rotation {rot})"), &mut viols);
                n += 1;
            }
        }
        for v in &viols {
            self.findings.add(self.prof, hist, v, "state", "-", "");
        }
        n
    }

    /// Evaluate `hist + [op]`: returns (key, pruned)
    fn eval(&self, hist: &[OpId], op: OpId, scratch: &mut History, outcomes: &mut BTreeMap<String, u64>) -> (Option<u128>, bool) {
        crate::trace(|| serde_json::json!({"profile": self.prof.name, "history": self.prof.render(hist), "step": format!("{:?}", self.prof.table[op as usize])}).to_string());
        let mut p = replay(self.prof, hist);
        let o = self.prof.table[op as usize];
        let rec = oracle::step(&mut p, o, self.prof.form);
        // the conformance and heap-safety oracles always run: a path that left the reference
        // model or corrupted the heap is pruned (reported only if its property is selected)
        let mut base = Vec::new();
        oracle::c01(&rec, &p, &mut base);
        oracle::c03(&rec, &p, &mut base);
        // (a capacity reported above what the block holds is a wrong *number*: nothing is damaged
        // yet, and what follows - an append "within capacity" that allocates, or one that writes
        // past the block - is exactly what C11 / C03 are about, so that path is kept)
        let ok = base.iter().all(|v| v.prop == "C03" && v.oracle == "capacity-vs-block");
        let mut viols: Vec<Viol> = base.into_iter().filter(|v| (v.prop == "C01" && self.props.c01) || (v.prop == "C03" && self.props.c03)).collect();
        let sel = Props { c01: false, c03: false, ..self.props };
        step_oracles(&sel, &rec, &p, &mut viols);
        *outcomes.entry(outcome_class(&rec)).or_default() += 1;
        let key = if ok { Some(hash128(&canonical_key(&p))) } else { None };
        // default closing order (rotation 0)
        if self.props.c03 {
            if let Err(m) = quiet(|| p.close(0)) {
                viols.push(Viol { prop: "C03", oracle: "close-panic", detail: format!("dropping the handles panicked: {m}") });
            }
            oracle::c03_closed("close(rotation 0)", &mut viols);
        } else {
            let _ = quiet(|| drop(p));
        }
        if !viols.is_empty() {
            scratch.clear();
            scratch.extend_from_slice(hist);
            scratch.push(op);
            let tk = oracle::target_kind(&rec);
            for v in &viols {
                self.findings.add(self.prof, scratch, v, o.kind_name(), tk, "");
            }
        }
        (key, !ok)
    }

    pub fn run(&self, roots: Vec<History>, depth: usize, count_last: bool) -> RunResult {
        let visited = Visited::new();
        let mut res = RunResult::default();
        // level 0: the roots themselves
        let mut frontier: Vec<History> = Vec::new();
        for r in roots {
            // a root is a seed prefix: every step of it is checked like any other transition
            let mut scratch = History::new();
            let mut root_ok = true;
            for n in 0..r.len() {
                let (key, pruned) = self.eval(&r[..n], r[n], &mut scratch, &mut res.outcomes);
                res.transitions += 1;
                if pruned || key.is_none() {
                    root_ok = false;
                    break;
                }
            }
            if !root_ok {
                res.roots_rejected += 1;
                continue;
            }
            let p = replay(self.prof, &r);
            let k = hash128(&canonical_key(&p));
            drop(p);
            if visited.insert(k) {
                res.state_probes += self.state_probe(&r);
                frontier.push(r);
            }
        }
        res.states = frontier.len() as u64;
        res.stored.push(frontier.clone());
        for level in 1..=depth {
            let t0 = Instant::now();
            let last = level == depth;
            let next_idx = AtomicUsize::new(0);
            let transitions = AtomicU64::new(0);
            let digest = AtomicU64::new(0);
            let pruned = AtomicU64::new(0);
            let new_states = AtomicU64::new(0);
            let probes = AtomicU64::new(0);
            let stop = AtomicBool::new(false);
            let next: Mutex<Vec<History>> = Mutex::new(Vec::new());
            let all_outcomes: Mutex<BTreeMap<String, u64>> = Mutex::new(BTreeMap::new());
            let fr = &frontier;
            std::thread::scope(|sc| {
                for _ in 0..self.threads {
                    sc.spawn(|| {
                        let mut local_next: Vec<History> = Vec::new();
                        let mut scratch = History::new();
                        let mut outcomes = BTreeMap::new();
                        let (mut tr, mut dg, mut pr, mut ns, mut sp) = (0u64, 0u64, 0u64, 0u64, 0u64);
                        loop {
                            let i = next_idx.fetch_add(1, Ordering::Relaxed);
                            if i >= fr.len() || stop.load(Ordering::Relaxed) {
                                break;
                            }
                            if i % 64 == 0 && self.budget.exceeded() {
                                stop.store(true, Ordering::Relaxed);
                                break;
                            }
                            if let (true, Some((k, n))) = (last, self.part) {
                                if i % n != k {
                                    continue;
                                }
                            }
                            let hist = &fr[i];
                            let p = replay(self.prof, hist);
                            let ops = enabled(self.prof, &p);
                            drop(p);
                            for op in ops {
                                let (key, was_pruned) = self.eval(hist, op, &mut scratch, &mut outcomes);
                                tr += 1;
                                if was_pruned {
                                    pr += 1;
                                }
                                if let Some(k) = key {
                                    dg = dg.wrapping_add((k as u64) ^ ((k >> 64) as u64));
                                    if (!last || count_last) && visited.insert(k) {
                                        ns += 1;
                                        let mut h2 = hist.clone();
                                        h2.push(op);
                                        sp += self.state_probe(&h2);
                                        if !last || self.store_last {
                                            local_next.push(h2);
                                        }
                                    }
                                }
                            }
                        }
                        transitions.fetch_add(tr, Ordering::Relaxed);
                        digest.fetch_add(dg, Ordering::Relaxed);
                        pruned.fetch_add(pr, Ordering::Relaxed);
                        new_states.fetch_add(ns, Ordering::Relaxed);
                        probes.fetch_add(sp, Ordering::Relaxed);
                        next.lock().unwrap().append(&mut local_next);
                        let mut ao = all_outcomes.lock().unwrap();
                        for (k, v) in outcomes {
                            *ao.entry(k).or_default() += v;
                        }
                    });
                }
            });
            let complete = !stop.load(Ordering::Relaxed);
            let st = LevelStat { level, new_states: new_states.into_inner(), transitions: transitions.into_inner(), digest: digest.into_inner(), pruned: pruned.into_inner(), secs: t0.elapsed().as_secs_f64(), complete };
            res.transitions += st.transitions;
            res.states += st.new_states;
            res.state_probes += probes.into_inner();
            for (k, v) in all_outcomes.into_inner().unwrap() {
                *res.outcomes.entry(k).or_default() += v;
            }
            eprintln!("[{}] level {} new_states {} transitions {} pruned {} digest {:016x} {:.1}s{}", self.prof.name, level, st.new_states, st.transitions, st.pruned, st.digest, st.secs, if complete { "" } else { " (CAPPED)" });
            res.levels.push(st);
            if !complete {
                res.capped = true;
                break;
            }
            let mut nx = next.into_inner().unwrap();
            // deterministic order of the next frontier regardless of thread timing
            nx.sort();
            if self.seed != 0 && !nx.is_empty() {
                let k = (self.seed as usize) % nx.len();
                nx.rotate_left(k);
            }
            if !last || self.store_last {
                res.stored.push(nx.clone());
            }
            frontier = nx;
            if frontier.is_empty() {
                break;
            }
        }
        res
    }
}

/// Runs `f` for every stored state (history) in parallel; `f` re-executes as it needs.
pub fn for_each_state<F: Fn(&[OpId]) + Sync>(states: &[History], threads: usize, budget: &Budget, f: F) -> (u64, bool) {
    let idx = AtomicUsize::new(0);
    let done = AtomicU64::new(0);
    let stop = AtomicBool::new(false);
    std::thread::scope(|sc| {
        for _ in 0..threads {
            sc.spawn(|| {
                loop {
                    let i = idx.fetch_add(1, Ordering::Relaxed);
                    if i >= states.len() || stop.load(Ordering::Relaxed) {
                        break;
                    }
                    if i % 16 == 0 && budget.exceeded() {
                        stop.store(true, Ordering::Relaxed);
                        break;
                    }
                    f(&states[i]);
                    done.fetch_add(1, Ordering::Relaxed);
                }
            });
        }
    });
    (done.into_inner(), !stop.into_inner())
}
