//! Sweeps along single histories: lengths, clone counts, constructor inputs, growth loops,
//! the representation zoo and the index text sweep (DESIGN §8: C07, C08, C09, C12, C17).
use crate::explore::{Findings, Profile};
use crate::oracle::{self, Viol};
use crate::pool::*;
use crate::probes::{self, ProbeStats};
use crate::shim;
use lean_string::{LeanString, ToLeanString, verif_hooks};
use std::borrow::Cow;
use std::sync::atomic::{AtomicUsize, Ordering};

pub fn sweep_profile() -> Profile {
    Profile { name: "sweep", k: 1, table: vec![], n_enabled: 0, form: Form::Plain, limits: WIDE_LIMITS }
}

pub struct SweepCtx<'a> {
    pub prof: &'a Profile,
    pub findings: &'a Findings,
    pub stats: &'a ProbeStats,
}
impl SweepCtx<'_> {
    fn report(&self, out: &[Viol], op: &str, tk: &str, extra: &str) {
        for v in out {
            self.findings.add(self.prof, &[], v, op, tk, extra);
        }
    }
    pub fn trace(&self, case: &str) {
        crate::trace(|| serde_json::json!({"profile": "sweep", "history": [], "case": case}).to_string());
    }
    fn count(&self) {
        self.stats.cases.fetch_add(1, Ordering::Relaxed);
        self.stats.executions.fetch_add(1, Ordering::Relaxed);
    }
}

/// Like `par_for`, but a panic escaping an item (the crate panicked where the harness did not
/// expect it, e.g. a constructor refusing a valid text) is reported as a violation of `prop`
/// instead of killing the engine.
pub fn par_for_guarded(cx: &SweepCtx, prop: &'static str, n: usize, threads: usize, f: impl Fn(usize) + Sync) {
    par_for(n, threads, |i| {
        if let Err(m) = quiet(|| f(i)) {
            let v = Viol { prop, oracle: "unexpected-panic", detail: format!("sweep item {i}: the crate panicked: {m}") };
            cx.report(&[v], "sweep", "-", &format!("item {i}"));
        }
    });
}

/// Runs `f(i)` for i in 0..n on `threads` threads.
pub fn par_for(n: usize, threads: usize, f: impl Fn(usize) + Sync) {
    let next = AtomicUsize::new(0);
    std::thread::scope(|sc| {
        for _ in 0..threads {
            sc.spawn(|| {
                loop {
                    let i = next.fetch_add(1, Ordering::Relaxed);
                    if i >= n {
                        break;
                    }
                    f(i);
                }
            });
        }
    });
}

/// all texts over the four character widths with total byte length <= max
pub fn width_texts(max: usize) -> Vec<String> {
    let mut out = vec![String::new()];
    let mut cur = vec![String::new()];
    loop {
        let mut next = Vec::new();
        for t in &cur {
            for c in CHARS {
                if t.len() + c.len_utf8() <= max {
                    let mut s = t.clone();
                    s.push(c);
                    next.push(s);
                }
            }
        }
        if next.is_empty() {
            break;
        }
        out.extend(next.iter().cloned());
        cur = next;
    }
    out
}

fn observe_meta(s: &LeanString) -> (usize, usize) {
    (s.len(), s.capacity())
}

fn long_text(len: usize) -> String {
    // mixed widths, exactly `len` bytes
    let unit = "ab€é😀0123456789";
    let mut s = String::with_capacity(len + 8);
    while s.len() + unit.len() <= len {
        s.push_str(unit);
    }
    while s.len() < len {
        s.push('z');
    }
    s
}

/// Backing memory of a pretended `&'static str`. It is held as a raw pointer: moving a `Box`
/// around after the reference was taken would, under the aliasing model Miri checks, end the
/// reference's validity (the harness, not the crate, would be at fault). The memory is released
/// when this is dropped; the harness drops every handle built from it first.
pub struct Backing(*mut str);
impl Backing {
    fn new(text: &str) -> (Backing, &'static str) {
        let raw: *mut str = Box::into_raw(Box::<str>::from(text));
        // SAFETY: valid until `Backing` is dropped
        (Backing(raw), unsafe { &*raw })
    }
}
impl Drop for Backing {
    fn drop(&mut self) {
        // SAFETY: created by Box::into_raw in `new`, released once
        drop(unsafe { Box::from_raw(self.0) });
    }
}

// -------------------------------------------------------------------------------------
// C08: clone sweep

#[derive(Clone, Copy, Debug, PartialEq)]
pub enum Storage {
    Inline,
    Static,
    StaticTruncated,
    HeapExact,
    HeapSpare,
    HeapSharedEqual,
    HeapSharedShorter,
    /// unique heap buffer with the given (much larger) capacity
    HeapBig(usize),
    /// a long shared text of the given length, this handle truncated to the short text
    HeapSharedMuchShorter(usize),
}
pub const STORAGES: [Storage; 7] = [Storage::Inline, Storage::Static, Storage::StaticTruncated, Storage::HeapExact, Storage::HeapSpare, Storage::HeapSharedEqual, Storage::HeapSharedShorter];

/// Builds a LeanString holding `text` in the given storage state. Returns the value plus
/// whatever has to stay alive next to it (siblings sharing the buffer, backing text).
pub struct Built {
    pub s: LeanString,
    pub siblings: Vec<LeanString>,
    _backing: Option<Backing>,
}
pub fn build(text: &str, st: Storage) -> Option<Built> {
    let mk = |s, siblings, backing| Some(Built { s, siblings, _backing: backing });
    match st {
        Storage::Inline => {
            if text.len() > INLINE {
                return None;
            }
            mk(LeanString::from(text), vec![], None)
        }
        Storage::Static => {
            if text.len() <= INLINE {
                return None;
            }
            let (b, st) = Backing::new(text);
            let s = LeanString::from_static_str(st);
            mk(s, vec![], Some(b))
        }
        Storage::StaticTruncated => {
            let (b, st) = Backing::new(&format!("{text}{}", ascii(INLINE + 4)));
            let mut s = LeanString::from_static_str(st);
            s.truncate(text.len());
            mk(s, vec![], Some(b))
        }
        Storage::HeapExact => {
            let mut s = LeanString::with_capacity(text.len().max(INLINE + 1));
            s.push_str(text);
            mk(s, vec![], None)
        }
        Storage::HeapSpare => {
            let mut s = LeanString::with_capacity(text.len() + 2 * INLINE + 8);
            s.push_str(text);
            mk(s, vec![], None)
        }
        Storage::HeapSharedEqual => {
            let mut s = LeanString::with_capacity(text.len().max(INLINE + 1));
            s.push_str(text);
            let sib = s.clone();
            mk(s, vec![sib], None)
        }
        Storage::HeapBig(cap) => {
            if cap <= text.len() + INLINE {
                return None;
            }
            let mut s = LeanString::with_capacity(cap);
            s.push_str(text);
            mk(s, vec![], None)
        }
        Storage::HeapSharedMuchShorter(total) => {
            if total <= text.len() + INLINE {
                return None;
            }
            let mut long = LeanString::with_capacity(total);
            long.push_str(text);
            while long.len() + 8 <= total {
                long.push_str("tailtail");
            }
            let mut s = long.clone();
            s.truncate(text.len());
            mk(s, vec![long], None)
        }
        Storage::HeapSharedShorter => {
            let mut long = LeanString::with_capacity(text.len() + INLINE + 4);
            long.push_str(text);
            long.push_str("xy€");
            let mut s = long.clone();
            s.truncate(text.len());
            mk(s, vec![long], None)
        }
    }
}

pub fn c08_sweep(cx: &SweepCtx, quick: bool, threads: usize) {
    let mut lens: Vec<usize> = (0..=80).collect();
    lens.extend([100, 1000, 4096]);
    if !quick {
        lens.extend([65536, 1 << 20]);
    }
    let counts: Vec<usize> = if quick { vec![1, 2, 3, 8, 64] } else { vec![1, 2, 3, 4, 5, 7, 8, 9, 16, 17, 31, 32, 33, 63, 64] };
    // besides the seven basic storage states: capacities far above the length (a clone must
    // share the buffer however empty it is) and handles much shorter than the shared text
    let mut storages: Vec<Storage> = STORAGES.to_vec();
    for big in [1usize << 10, 5000, 1 << 13, 1 << 16, 1 << 20, 3 << 20] {
        if quick && big > (1 << 16) {
            continue;
        }
        storages.push(Storage::HeapBig(big));
        storages.push(Storage::HeapSharedMuchShorter(big));
    }
    let storages = &storages;
    par_for_guarded(cx, "C08", lens.len(), threads, |li| {
        let len = lens[li];
        let text = long_text(len);
        for &st in storages {
            for method in 0..5u8 {
                for &n in &counts {
                    for order in 0..3u8 {
                        shim::with(|s| s.reset());
                        let b = match build(&text, st) {
                            Some(b) => b,
                            None => continue,
                        };
                        cx.count();
                        let desc = format!("{st:?} len {len}: {} x{n}, drop order {}", ["clone", "clone_from(new)", "clone_from(heap)", "From<&LeanString>", "to_lean_string"][method as usize], ["LIFO", "FIFO", "source first"][order as usize]);
                        cx.trace(&desc);
                        let mut out = Vec::new();
                        let src_obs = observe(&b.s);
                        // pre-build the clone_from targets so that their allocation is not counted
                        let mut targets: Vec<LeanString> = (0..n).map(|_| if method == 2 { LeanString::from(long_text(40).as_str()) } else { LeanString::new() }).collect();
                        let c0 = shim::with(|s| s.mark());
                        let mut copies: Vec<LeanString> = Vec::with_capacity(n);
                        for t in targets.drain(..) {
                            copies.push(match method {
                                0 => b.s.clone(),
                                1 | 2 => {
                                    let mut t = t;
                                    t.clone_from(&b.s);
                                    t
                                }
                                3 => LeanString::from(&b.s),
                                _ => b.s.to_lean_string(),
                            });
                        }
                        let d = oracle::delta(c0, shim::with(|s| s.c));
                        let mut v = |oracle: &'static str, detail: String| out.push(Viol { prop: "C08", oracle, detail });
                        if d.requests != 0 {
                            v("allocates", format!("{desc}: {} allocator request(s)", d.requests));
                        }
                        for c in &copies {
                            let o = observe(c);
                            if o.kind != src_obs.kind || o.text != src_obs.text || (o.kind != Kind::Inline && o.ptr != src_obs.ptr) || (o.kind == Kind::Inline && o.raw != src_obs.raw) {
                                v("copy", format!("{desc}: a copy is {:?} at {} (source {:?})", o.kind, if o.ptr == src_obs.ptr { "the same bytes" } else { "other bytes" }, src_obs.kind));
                                break;
                            }
                            if c != &b.s {
                                v("not-equal", format!("{desc}: a copy does not compare equal"));
                                break;
                            }
                        }
                        if src_obs.kind == Kind::Heap {
                            let rc = verif_hooks::refcount(&b.s).unwrap();
                            if rc != src_obs.rc + n {
                                v("refcount", format!("{desc}: reference count {} -> {rc}", src_obs.rc));
                            }
                        }
                        // dropping either side leaves the other intact
                        let Built { s, siblings, _backing } = b;
                        let mut src = Some(s);
                        match order {
                            0 => {
                                while let Some(c) = copies.pop() {
                                    drop(c);
                                    if copies.last().is_some_and(|l| l.as_bytes() != text.as_bytes()) || src.as_ref().unwrap().as_bytes() != text.as_bytes() {
                                        v("drop-damages", format!("{desc}: dropping a copy changed another handle"));
                                        break;
                                    }
                                }
                            }
                            1 => {
                                while !copies.is_empty() {
                                    drop(copies.remove(0));
                                    if copies.first().is_some_and(|l| l.as_bytes() != text.as_bytes()) || src.as_ref().unwrap().as_bytes() != text.as_bytes() {
                                        v("drop-damages", format!("{desc}: dropping a copy changed another handle"));
                                        break;
                                    }
                                }
                            }
                            _ => {
                                src = None;
                                if copies.iter().any(|c| c.as_bytes() != text.as_bytes()) {
                                    v("drop-damages", format!("{desc}: dropping the source changed a copy"));
                                }
                            }
                        }
                        drop(copies);
                        drop(src);
                        drop(siblings);
                        let (live, errs, audit) = shim::with(|s| (s.live_blocks(), s.errors.clone(), s.audit()));
                        if live != 0 {
                            v("leak", format!("{desc}: {live} block(s) live after everything was dropped"));
                        }
                        if let Some(e) = errs.first().or(audit.first()) {
                            v("heap", format!("{desc}: {e}"));
                        }
                        drop(_backing);
                        cx.stats.class(format!("{st:?}/m{method}"));
                        cx.stats.sample(|| desc.clone());
                        cx.report(&out, "clone-sweep", &format!("{st:?}"), &desc);
                    }
                }
            }
        }
    });
}

// -------------------------------------------------------------------------------------
// C09: constructor sweep

pub const CTOR_NAMES: [&str; 15] = ["From<&str>", "From<String>", "From<&String>", "From<Box<str>>", "From<Cow::Borrowed>", "From<Cow::Owned>", "FromStr", "from_utf8", "to_lean_string(String)", "from_utf8_unchecked", "From<String with spare capacity>", "From<&String with spare capacity>", "From<Cow::Owned with spare capacity>", "to_lean_string(String with spare capacity)", "From<String truncated from a longer one>"];

fn spare(t: &str, extra: usize) -> String {
    let mut s = String::with_capacity(t.len() + extra);
    s.push_str(t);
    s
}

fn construct(which: usize, t: &str) -> LeanString {
    match which {
        0 => LeanString::from(t),
        1 => LeanString::from(t.to_string()),
        2 => LeanString::from(&t.to_string()),
        3 => LeanString::from(Box::<str>::from(t)),
        4 => LeanString::from(Cow::Borrowed(t)),
        5 => LeanString::from(Cow::<str>::Owned(t.to_string())),
        6 => t.parse().unwrap(),
        7 => LeanString::from_utf8(t.as_bytes()).unwrap(),
        8 => t.to_string().to_lean_string(),
        9 => unsafe { LeanString::from_utf8_unchecked(t.as_bytes()) },
        10 => LeanString::from(spare(t, 2 * INLINE + 5)),
        11 => LeanString::from(&spare(t, 100)),
        12 => LeanString::from(Cow::<str>::Owned(spare(t, INLINE + 1))),
        13 => spare(t, 1000).to_lean_string(),
        _ => {
            let mut s = format!("{t}{}", ascii(3 * INLINE));
            s.truncate(t.len());
            LeanString::from(s)
        }
    }
}

fn ctor_verdict(cx: &SweepCtx, name: &str, text_len: usize, want: &[u8], s: &LeanString, d: shim::Counters, exact: bool) {
    cx.count();
    let mut out = Vec::new();
    let mut v = |oracle: &'static str, detail: String| out.push(Viol { prop: "C09", oracle, detail });
    let o = observe(s);
    let desc = format!("{name} of a {text_len}-byte text {:?}", String::from_utf8_lossy(&want[..want.len().min(24)]));
    if o.text != want {
        v("text", format!("{desc}: reads {:?}", String::from_utf8_lossy(&o.text)));
    }
    if text_len <= INLINE {
        if d.requests != 0 || o.heap_flag || o.kind != Kind::Inline {
            v("short-ctor", format!("{desc}: {} allocator request(s), is_heap_allocated()={}, storage {:?}", d.requests, o.heap_flag, o.kind));
        }
    } else if exact && (d.allocs != 1 || d.reallocs != 0 || o.cap != o.len || !o.heap_flag) {
        v("long-ctor", format!("{desc}: {} alloc(s), {} realloc(s), capacity {} (len {})", d.allocs, d.reallocs, o.cap, o.len));
    }
    cx.stats.class(format!("{name}/{}", if text_len <= INLINE { "short" } else { "long" }));
    cx.report(&out, "ctor-sweep", if text_len <= INLINE { "short" } else { "long" }, &desc);
}

pub fn c09_sweep(cx: &SweepCtx, quick: bool, threads: usize) {
    let mut texts_: Vec<String> = width_texts(if quick { 12 } else { INLINE + 1 });
    if quick {
        // boundary lengths with every width in the last position
        for n in [INLINE - 1, INLINE, INLINE + 1] {
            for c in CHARS {
                if n >= c.len_utf8() {
                    texts_.push(format!("{}{c}", ascii(n - c.len_utf8())));
                }
            }
        }
    }
    // every possible final byte of a full inline string
    for b in 0u8..=0x7F {
        texts_.push(format!("{}{}", ascii(INLINE - 1), b as char));
    }
    for b in 0x80u8..=0xBF {
        let two = String::from_utf8(vec![0xC3, b]).unwrap();
        let three = String::from_utf8(vec![0xE1, 0x80, b]).unwrap();
        let four = String::from_utf8(vec![0xF1, 0x80, 0x80, b]).unwrap();
        for tail in [two, three, four] {
            texts_.push(format!("{}{tail}", ascii(INLINE - tail.len())));
        }
    }
    for n in INLINE + 1..=80 {
        texts_.push(long_text(n));
    }
    for n in [100, 1000, 4095, 4096, 4097, 65535, 65536, 65537, 131071, 131072, 131073, 200_000, (1 << 20) + 1] {
        texts_.push(long_text(n));
    }
    if !quick {
        for n in [(1 << 24) - 1, 1 << 24, (1 << 24) + 1, (1 << 25) + 3] {
            texts_.push(long_text(n));
        }
    }
    par_for_guarded(cx, "C09", texts_.len(), threads, |ti| {
        let t = &texts_[ti];
        cx.trace(&format!("constructors of {t:?}"));
        for which in 0..CTOR_NAMES.len() {
            shim::with(|s| s.reset());
            let c0 = shim::with(|s| s.mark());
            let s = construct(which, t);
            let d = oracle::delta(c0, shim::with(|s| s.c));
            ctor_verdict(cx, CTOR_NAMES[which], t.len(), t.as_bytes(), &s, d, true);
            drop(s);
        }
        cx.stats.sample(|| format!("{t:?} through {} constructors", CTOR_NAMES.len()));
    });
    // chars, bools, integers
    let chars: Vec<char> = if quick { (0..=0x10FFFFu32).step_by(257).filter_map(char::from_u32).chain(CHARS).collect() } else { (0..=0x10FFFFu32).filter_map(char::from_u32).collect() };
    par_for_guarded(cx, "C09", 16, threads, |part| {
        for (n, &c) in chars.iter().enumerate() {
            if n % 16 != part {
                continue;
            }
            for which in 0..2 {
                shim::with(|s| s.reset());
                let c0 = shim::with(|s| s.mark());
                let s = if which == 0 { LeanString::from(c) } else { c.to_lean_string() };
                let d = oracle::delta(c0, shim::with(|s| s.c));
                let mut buf = [0u8; 4];
                let want = c.encode_utf8(&mut buf).as_bytes();
                ctor_verdict(cx, if which == 0 { "From<char>" } else { "to_lean_string(char)" }, want.len(), want, &s, d, false);
            }
        }
    });
    for b in [true, false] {
        shim::with(|s| s.reset());
        let c0 = shim::with(|s| s.mark());
        let s = b.to_lean_string();
        let d = oracle::delta(c0, shim::with(|s| s.c));
        let want = b.to_string();
        ctor_verdict(cx, "to_lean_string(bool)", want.len(), want.as_bytes(), &s, d, false);
    }
    // integers: every digit count of every width, both signs, and the boundaries of the inline limit
    let mut ints: Vec<i128> = vec![0];
    let mut p: i128 = 1;
    for _ in 0..39 {
        for d in [-1i128, 0, 1] {
            ints.push(p + d);
            ints.push(-(p + d));
        }
        p = p.saturating_mul(10);
    }
    for x in [i8::MIN as i128, i16::MIN as i128, i32::MIN as i128, i64::MIN as i128, i128::MIN, u8::MAX as i128, u16::MAX as i128, u32::MAX as i128, u64::MAX as i128, i128::MAX] {
        ints.push(x);
    }
    macro_rules! int_case {
        ($t:ty, $x:expr) => {
            #[allow(irrefutable_let_patterns)]
            if let Ok(v) = <$t>::try_from($x) {
                shim::with(|s| s.reset());
                let c0 = shim::with(|s| s.mark());
                let s = v.to_lean_string();
                let d = oracle::delta(c0, shim::with(|s| s.c));
                let want = v.to_string();
                ctor_verdict(cx, concat!("to_lean_string(", stringify!($t), ")"), want.len(), want.as_bytes(), &s, d, false);
            }
        };
    }
    for &x in &ints {
        int_case!(i8, x);
        int_case!(u8, x);
        int_case!(i16, x);
        int_case!(u16, x);
        int_case!(i32, x);
        int_case!(u32, x);
        int_case!(i64, x);
        int_case!(u64, x);
        int_case!(isize, x);
        int_case!(usize, x);
        int_case!(i128, x);
        if x >= 0 {
            if let Ok(v) = u128::try_from(x) {
                shim::with(|s| s.reset());
                let c0 = shim::with(|s| s.mark());
                let s = v.to_lean_string();
                let d = oracle::delta(c0, shim::with(|s| s.c));
                let want = v.to_string();
                ctor_verdict(cx, "to_lean_string(u128)", want.len(), want.as_bytes(), &s, d, false);
            }
        }
    }
}

// -------------------------------------------------------------------------------------
// C12: growth sweep and push loops

pub fn c12_sweep(cx: &SweepCtx, quick: bool, threads: usize) {
    let max = if quick { 80 } else { 200 };
    par_for_guarded(cx, "C12", max + 1, threads, |len| {
        let text = long_text(len);
        cx.trace(&format!("growth sweep at len {len}"));
        for st in STORAGES {
            for add in 1..=max {
                for which in 0..3u8 {
                    shim::with(|s| s.reset());
                    let mut b = match build(&text, st) {
                        Some(b) => b,
                        None => continue,
                    };
                    cx.count();
                    let a = observe(&b.s);
                    let piece = long_text(add);
                    match which {
                        0 => b.s.reserve(add),
                        1 => b.s.push_str(&piece),
                        _ => b.s.insert_str(0, &piece),
                    }
                    let o = observe(&b.s);
                    let desc = format!("{st:?} len {len} cap {}: {}({add} bytes)", a.cap, ["reserve", "push_str", "insert_str"][which as usize]);
                    let mut out = Vec::new();
                    if a.len + add > a.cap && o.kind == Kind::Heap {
                        let lo = a.len + a.len / 2;
                        let hi = lo.max(a.len + add);
                        if o.cap < lo {
                            out.push(Viol { prop: "C12", oracle: "too-small", detail: format!("{desc}: new capacity {} < len + len/2 = {lo}", o.cap) });
                        }
                        if o.cap > hi {
                            out.push(Viol { prop: "C12", oracle: "too-big", detail: format!("{desc}: new capacity {} > max(len + len/2, len + additional) = {hi}", o.cap) });
                        }
                        cx.stats.class(format!("{st:?}/grew"));
                    } else {
                        cx.stats.class(format!("{st:?}/no-growth"));
                    }
                    cx.report(&out, "growth-sweep", &format!("{st:?}"), &desc);
                }
            }
        }
        cx.stats.sample(|| format!("len {len}: reserve/push_str/insert_str of 1..={max} bytes in 7 storage states"));
    });
    // growth events at large lengths: intermediate arithmetic that loses precision or overflows
    // only shows there (lengths around 2^k and 3*2^k up to 48 MiB, odd low bits)
    let mut big_lens: Vec<usize> = Vec::new();
    for k in if quick { 12..=24 } else { 10..=25 } {
        let b = 1usize << k;
        for d in [0usize, 1, 3, 5] {
            big_lens.push(b - 1 - d);
            big_lens.push(b + d);
            big_lens.push(b + b / 2 + d);
            big_lens.push(b / 3 * 2 + d);
        }
    }
    big_lens.extend([5_592_409, 11_184_814, 16_777_219, 22_369_621]);
    let filler = long_text(big_lens.iter().copied().max().unwrap() + 64);
    par_for_guarded(cx, "C12", big_lens.len(), threads.min(8), |bi| {
        let len = big_lens[bi];
        for which in 0..3u8 {
            shim::with(|s| s.reset());
            let mut s = LeanString::with_capacity(len);
            s.push_str(&filler[..filler.floor_char_boundary(len)]);
            while s.len() < len {
                s.push('z');
            }
            let shared = if which == 2 { Some(s.clone()) } else { None };
            let a = observe_meta(&s);
            cx.count();
            match which {
                0 => s.reserve(1),
                _ => s.push('q'),
            }
            let cap = s.capacity();
            let (alen, acap) = a;
            let mut out = Vec::new();
            if alen + 1 > acap || shared.is_some() {
                let lo = alen + alen / 2;
                let hi = lo.max(alen + 1);
                if alen + 1 > acap && cap < lo {
                    out.push(Viol { prop: "C12", oracle: "too-small", detail: format!("len {alen} cap {acap}: new capacity {cap} < len + len/2 = {lo}") });
                }
                if alen + 1 > acap && cap > hi {
                    out.push(Viol { prop: "C12", oracle: "too-big", detail: format!("len {alen} cap {acap}: new capacity {cap} > max(len + len/2, len + 1) = {hi}") });
                }
            }
            cx.stats.class(format!("big-growth/{}", ["reserve", "push", "push-shared"][which as usize]));
            cx.report(&out, "big-growth", ["reserve", "push", "push-shared"][which as usize], &format!("len {alen}"));
            drop(shared);
        }
        cx.stats.sample(|| format!("growth at len {len} (reserve(1), push, push on a shared buffer)"));
    });
    // push loops: one char of width w until `total` bytes, every prefix observed
    let total: usize = if quick { 256 << 10 } else { 4 << 20 };
    par_for_guarded(cx, "C12", 4, threads, |wi| {
        let ch = CHARS[wi];
        let w = ch.len_utf8();
        shim::with(|s| s.reset());
        let mut s = LeanString::new();
        let mut requests = 0u64;
        let mut copied = 0usize;
        // the slowest growth the statement permits, with the least favourable length
        let mut sim_cap = INLINE;
        let mut sim_requests = 0u64;
        let mut out = Vec::new();
        let mut n = 0usize;
        while s.len() + w <= total {
            let a_len = s.len();
            let a_cap = s.capacity();
            let c0 = shim::with(|s| s.mark());
            s.push(ch);
            n += 1;
            let d = oracle::delta(c0, shim::with(|s| s.c));
            cx.count();
            if d.requests > 0 {
                requests += d.requests;
                copied += a_len;
                let lo = a_len + a_len / 2;
                let hi = lo.max(a_len + w);
                let cap = s.capacity();
                if cap < lo || cap > hi {
                    out.push(Viol { prop: "C12", oracle: if cap < lo { "too-small" } else { "too-big" }, detail: format!("push loop width {w}: at len {a_len} cap {a_cap} the new capacity is {cap}, allowed {lo}..={hi}") });
                }
            }
            // simulated slowest permitted growth
            let len_after = n * w;
            if len_after > sim_cap {
                let worst_len = sim_cap - w + 1;
                sim_cap = (worst_len + worst_len / 2).max(len_after);
                sim_requests += 1;
            }
            if requests > sim_requests {
                out.push(Viol { prop: "C12", oracle: "too-many-reallocations", detail: format!("push loop width {w}: {requests} allocator requests after {n} pushes; the slowest growth the statement permits needs {sim_requests}") });
                break;
            }
            if copied > 3 * n * w + 64 {
                out.push(Viol { prop: "C12", oracle: "too-much-copying", detail: format!("push loop width {w}: {copied} bytes copied after {n} pushes (> 3*n*w + 64)") });
                break;
            }
        }
        if s.len() != n * w || !s.chars().all(|c| c == ch) {
            out.push(Viol { prop: "C12", oracle: "loop-text", detail: format!("push loop width {w}: text damaged") });
        }
        cx.stats.class(format!("push-loop/w{w}/requests-{requests}"));
        cx.stats.sample(|| format!("push {ch:?} x{n}: {requests} allocator requests (bound {sim_requests}), {copied} bytes copied"));
        cx.report(&out, "push-loop", &format!("w{w}"), &format!("push {ch:?} until {total} bytes"));
    });
}

// -------------------------------------------------------------------------------------
// C17: representation zoo

pub const ROUTES: usize = 9;
fn zoo_build(t: &str, route: usize) -> Option<Built> {
    let mk = |s, siblings: Vec<LeanString>| Some(Built { s, siblings, _backing: None });
    match route {
        0 => mk(LeanString::from(t), vec![]),
        1 => {
            let (b, st) = Backing::new(t);
            let s = LeanString::from_static_str(st);
            Some(Built { s, siblings: vec![], _backing: Some(b) })
        }
        2 => {
            let mut s = LeanString::new();
            for c in t.chars() {
                s.push(c);
            }
            mk(s, vec![])
        }
        3 => {
            // built longer then popped: stale bytes behind the end
            let mut s = LeanString::from(t);
            s.push_str("€zz");
            s.pop();
            s.pop();
            s.pop();
            mk(s, vec![])
        }
        4 => {
            let mut s = LeanString::with_capacity(64);
            s.push_str(t);
            mk(s, vec![])
        }
        5 => build(t, Storage::HeapSharedShorter),
        6 => build(t, Storage::StaticTruncated),
        7 => {
            let mut s = LeanString::with_capacity(100);
            s.push_str(t);
            s.shrink_to_fit();
            mk(s, vec![])
        }
        _ => {
            // grown through the inline limit to the heap, truncated back
            let mut s = LeanString::from(t);
            s.push_str(ascii(INLINE + 3));
            s.truncate(t.len());
            mk(s, vec![])
        }
    }
}

pub fn c17_zoo(cx: &SweepCtx, quick: bool, threads: usize) {
    let mut texts_: Vec<String> = Vec::new();
    // all texts of <= 4 chars over the four widths (quick: <= 3)
    let maxc = if quick { 3 } else { 4 };
    let mut cur = vec![String::new()];
    texts_.push(String::new());
    for _ in 0..maxc {
        let mut nx = Vec::new();
        for t in &cur {
            for c in CHARS {
                nx.push(format!("{t}{c}"));
            }
        }
        texts_.extend(nx.iter().cloned());
        cur = nx;
    }
    for n in [INLINE - 1, INLINE, INLINE + 1] {
        let base = ascii(n).to_string();
        texts_.push(base.clone());
        // differs in the last byte / is a prefix
        texts_.push(format!("{}#", &base[..n - 1]));
        texts_.push(base[..n - 1].to_string());
        for c in CHARS {
            if n >= c.len_utf8() {
                texts_.push(format!("{}{c}", ascii(n - c.len_utf8())));
            }
        }
    }
    texts_.sort();
    texts_.dedup();
    // formatting alphabet: characters Debug escapes or pads specially; every text of <= 3 of
    // them, alone and behind a 14-byte ASCII run, through every route (Display/Debug/padding/
    // Hash/conversions only - not all pairs)
    {
        let fmt_chars = ['a', '"', '\\', '\'', '\n', '\t', '\0', '\u{7f}', '\u{300}', '\u{2028}', 'é', '😀'];
        let mut cur = vec![String::new()];
        let mut all = Vec::new();
        for _ in 0..(if quick { 2 } else { 3 }) {
            let mut nx = Vec::new();
            for t in &cur {
                for c in fmt_chars {
                    nx.push(format!("{t}{c}"));
                }
            }
            all.extend(nx.iter().cloned());
            cur = nx;
        }
        let n = all.len();
        par_for_guarded(cx, "C17", n, threads, |i| {
            for prefix in ["", ascii(INLINE - 2)] {
                let t = format!("{prefix}{}", all[i]);
                for route in 0..ROUTES {
                    shim::with(|s| s.reset());
                    if let Some(b) = zoo_build(&t, route) {
                        cx.count();
                        let mut out = Vec::new();
                        oracle::c17_single(&b.s, &t, &format!("text {t:?} via route {route}"), &mut out);
                        cx.report(&out, "zoo-format", &format!("route{route}"), &format!("text {t:?} route {route}"));
                    }
                }
            }
        });
        cx.stats.class(format!("format-alphabet/{n}-texts"));
    }
    // build the zoo once per worker chunk: items = (text index, route)
    let items: Vec<(usize, usize)> = (0..texts_.len()).flat_map(|t| (0..ROUTES).map(move |r| (t, r))).collect();
    let n = items.len();
    par_for_guarded(cx, "C17", n, threads, |ai| {
        shim::with(|s| s.reset());
        let (ta, ra) = items[ai];
        let sa = &texts_[ta];
        cx.trace(&format!("zoo item {sa:?} route {ra}"));
        let a = match zoo_build(sa, ra) {
            Some(a) => a,
            None => return,
        };
        let mut out = Vec::new();
        oracle::c17_single(&a.s, sa, &format!("text {sa:?} via route {ra}"), &mut out);
        for &(tb, rb) in &items {
            let sb = &texts_[tb];
            let b = match zoo_build(sb, rb) {
                Some(b) => b,
                None => continue,
            };
            cx.count();
            oracle::c17_pair(&a.s, sa, &b.s, sb, &format!("({sa:?} via route {ra}) vs ({sb:?} via route {rb})"), &mut out);
        }
        cx.stats.class(format!("route{ra}/{:?}", kind_of(&a.s)));
        cx.stats.sample(|| format!("{sa:?} via route {ra} against all {n} (text, route) items"));
        cx.report(&out, "zoo", &format!("route{ra}"), &format!("text {sa:?} route {ra}"));
    });
}

// -------------------------------------------------------------------------------------
// C07: text sweep (every text x storage state x index x operation)

pub fn c07_text_sweep(cx: &SweepCtx, quick: bool, threads: usize) {
    let mut texts_ = width_texts(if quick { 12 } else { INLINE + 2 });
    if quick {
        for n in [INLINE - 1, INLINE, INLINE + 1] {
            for c in CHARS {
                texts_.push(format!("{}{c}", ascii(n - c.len_utf8())));
                texts_.push(format!("{c}{}", ascii(n - c.len_utf8())));
            }
        }
    }
    par_for_guarded(cx, "C07", texts_.len(), threads, |ti| {
        let t = &texts_[ti];
        cx.trace(&format!("index text sweep of {t:?}"));
        for st in STORAGES {
            for op in 0..5usize {
                for try_form in [false, true] {
                    for idx in 0..=t.len() + 2 {
                        shim::with(|s| s.reset());
                        let mut b = match build(t, st) {
                            Some(b) => b,
                            None => continue,
                        };
                        let mut m = t.clone();
                        let pre = observe(&b.s);
                        let sib_pre: Vec<SlotObs> = b.siblings.iter().map(observe).collect();
                        let buf_pre: Vec<u8> = if pre.kind == Kind::Heap { unsafe { std::slice::from_raw_parts(pre.ptr as *const u8, pre.cap).to_vec() } } else { vec![] };
                        let c0 = shim::with(|s| s.mark());
                        let (lean, model) = probes::idx_pair(&mut b.s, &mut m, op, idx, try_form);
                        let d = oracle::delta(c0, shim::with(|s| s.c));
                        cx.count();
                        let post = observe(&b.s);
                        let buf_post: Vec<u8> = if post.kind == Kind::Heap && post.ptr == pre.ptr { unsafe { std::slice::from_raw_parts(post.ptr as *const u8, post.cap.min(pre.cap)).to_vec() } } else { vec![] };
                        let unchanged = post == pre && buf_pre.len() == buf_post.len() && buf_pre == buf_post;
                        let desc = format!("{st:?} {t:?}: {}{}({idx})", if try_form { "try_" } else { "" }, probes::idx_name(op));
                        let mut out = Vec::new();
                        let class = probes::index_verdict(&desc, &lean, &model, unchanged, d.requests, &post.text, &m, &mut out);
                        for (s0, s1) in sib_pre.iter().zip(b.siblings.iter().map(observe)) {
                            if s0.text != s1.text || s0.ptr != s1.ptr || s0.cap != s1.cap {
                                out.push(Viol { prop: "C07", oracle: "other-changed", detail: format!("{desc}: a string sharing the buffer changed") });
                            }
                        }
                        let errs = shim::with(|s| s.errors.first().cloned().or(s.audit().first().cloned()));
                        if let Some(e) = errs {
                            out.push(Viol { prop: "C07", oracle: "heap-damage", detail: format!("{desc}: {e}") });
                        }
                        cx.stats.class(format!("{}/{st:?}/{class}", probes::idx_name(op)));
                        cx.report(&out, probes::idx_name(op), &format!("{st:?}"), &desc);
                    }
                }
            }
        }
        cx.stats.sample(|| format!("{t:?}: 7 storage states x 5 operations x 2 forms x indices 0..={}", t.len() + 2));
    });
}

// -------------------------------------------------------------------------------------
// C20: niche sweep (every possible 16th byte, heap/static strings of many lengths)

pub fn c20_sweep(cx: &SweepCtx, quick: bool) {
    let n = std::mem::size_of::<LeanString>();
    let none: Option<LeanString> = None;
    let none_tag = unsafe { *(&none as *const Option<LeanString> as *const u8).add(n - 1) };
    let mut texts_: Vec<String> = Vec::new();
    for b in 0u8..=0x7F {
        texts_.push(format!("{}{}", ascii(INLINE - 1), b as char));
    }
    for b in 0x80u8..=0xBF {
        for tail in [vec![0xC3, b], vec![0xE1, 0x80, b], vec![0xF1, 0x80, 0x80, b]] {
            let tail = String::from_utf8(tail).unwrap();
            texts_.push(format!("{}{tail}", ascii(INLINE - tail.len())));
        }
    }
    for len in 0..=INLINE {
        texts_.push(ascii(len).to_string());
    }
    let lens: Vec<usize> = if std::env::var("LSVERIF_MIRI").is_ok() { vec![INLINE + 1, INLINE + 2, 31, 32, 33, 255, 256, 257] } else if quick { vec![17, 18, 31, 32, 33, 255, 256, 257, 65535, 65536, 65537] } else { (17..=600).chain([65535, 65536, 65537, (1 << 20) - 1, 1 << 20, (1 << 24) - 1, 1 << 24, (1 << 24) + 1]).collect() };
    for len in lens {
        texts_.push(long_text(len));
    }
    par_for_guarded(cx, "C20", texts_.len(), 1, |ti| {
        let t = &texts_[ti];
        for st in STORAGES {
            cx.trace(&format!("niche sweep: {st:?} text of {} bytes ending in {:#04x}", t.len(), t.as_bytes().last().copied().unwrap_or(0)));
            shim::with(|s| s.reset());
            let b = match quiet(|| build(t, st)) {
                Ok(Some(b)) => b,
                Ok(None) => continue,
                Err(m) => {
                    let v = Viol { prop: "C20", oracle: "valid-text-refused", detail: format!("building a {}-byte text ending in {:#04x} as {st:?} panicked: {m}", t.len(), t.as_bytes().last().copied().unwrap_or(0)) };
                    cx.report(&[v], "niche-sweep", &format!("{st:?}"), &format!("{t:?}"));
                    continue;
                }
            };
            cx.count();
            let mut out = Vec::new();
            let raw = raw_of(&b.s);
            let last = raw[n - 1];
            let desc = format!("{st:?} text of {} bytes ending in {:#04x}", t.len(), t.as_bytes().last().copied().unwrap_or(0));
            if last == none_tag || last > 0xD1 {
                out.push(Viol { prop: "C20", oracle: "niche", detail: format!("{desc}: last byte of the handle is {last:#x} (None uses {none_tag:#x})") });
            }
            let o: Option<LeanString> = Some(b.s.clone());
            let o = std::hint::black_box(o);
            if o.is_none() || o.as_ref().map(|x| x.as_str()) != Some(t.as_str()) {
                out.push(Viol { prop: "C20", oracle: "option-roundtrip", detail: format!("{desc}: Some(s) is mistaken for None or reads another text") });
            }
            let oo: Option<Option<LeanString>> = std::hint::black_box(Some(None));
            if oo.is_none() {
                out.push(Viol { prop: "C20", oracle: "option-roundtrip", detail: "Some(None) is mistaken for None".into() });
            }
            cx.stats.class(format!("{st:?}/last-byte-{}", if last < 0xC0 { "text" } else if last <= 0xCF { "inline-len" } else { "marker" }));
            cx.report(&out, "niche-sweep", &format!("{st:?}"), &desc);
        }
    });
    cx.stats.sample(|| format!("{} texts x 7 storage states; None::<LeanString> stores {none_tag:#x} in the last byte", texts_.len()));
}

// -------------------------------------------------------------------------------------
// C01: single operations on (a) a full inline string with every possible 16th byte and
// (b) long texts (lengths around 64, 256, 4 KiB, 64 KiB), in every storage state, against String

fn c01_ops(h: &mut LeanString, m: &mut String, op: usize, idx: usize) -> Result<bool, String> {
    // returns Ok(outcomes agree); the model decides whether a panic is expected
    macro_rules! both {
        ($l:expr, $r:expr) => {{
            let a = quiet(|| $l);
            let b = quiet(|| $r);
            match (a, b) {
                (Ok(x), Ok(y)) => Ok(format!("{x:?}") == format!("{y:?}")),
                (Err(_), Err(_)) => Ok(true),
                (a, b) => Err(format!("LeanString {:?}, String {:?}", a.map(|x| format!("{x:?}")), b.map(|x| format!("{x:?}")))),
            }
        }};
    }
    match op {
        0 => both!(h.pop(), m.pop()),
        1 => both!(h.push('€'), m.push('€')),
        2 => both!(h.push_str("xy"), m.push_str("xy")),
        3 => both!(h.insert(idx, 'é'), m.insert(idx, 'é')),
        4 => both!(h.insert_str(idx, "0123456789abcdefg"), m.insert_str(idx, "0123456789abcdefg")),
        5 => both!(h.remove(idx), m.remove(idx)),
        6 => both!(h.truncate(idx), m.truncate(idx)),
        7 => {
            let mut n = 0;
            let mut k = 0;
            both!(h.retain(|_| { n += 1; n % 3 != 0 }), m.retain(|_| { k += 1; k % 3 != 0 }))
        }
        8 => both!(h.clear(), m.clear()),
        9 => both!(h.shrink_to_fit(), ()),
        10 => both!(h.reserve(idx), ()),
        11 => both!({ let c = h.clone(); h.push_str(&c) }, { let c = m.clone(); m.push_str(&c) }),
        12 => both!(h.extend(['a', '😀']), m.extend(['a', '😀'])),
        _ => both!(*h += "z", *m += "z"),
    }
}
const C01_OPS: usize = 14;

pub fn c01_sweep(cx: &SweepCtx, quick: bool, threads: usize) {
    c01_sweep_as(cx, "C01", quick, None, threads)
}

/// `prop`: the property the violations are filed under (C20 runs this sweep hosted by Miri for
/// other targets, where "behaves like String" is part of "behaves the same everywhere");
/// `hosted`: the reduced text set of an interpreted run, of which this process takes the texts
/// with index = k (mod n).
pub fn c01_sweep_as(cx: &SweepCtx, prop: &'static str, quick: bool, hosted: Option<(usize, usize)>, threads: usize) {
    let part = hosted;
    let hosted = hosted.is_some();
    let mut texts_: Vec<String> = Vec::new();
    for b in (0u8..=0x7F).filter(|b| !hosted || b % 32 == 1) {
        texts_.push(format!("{}{}", ascii(INLINE - 1), b as char));
    }
    for b in (0x80u8..=0xBF).filter(|b| !hosted || b % 32 == 1) {
        for tail in [vec![0xC3, b], vec![0xE1, 0x80, b], vec![0xF1, 0x80, 0x80, b]] {
            let tail = String::from_utf8(tail).unwrap();
            texts_.push(format!("{}{tail}", ascii(INLINE - tail.len())));
        }
    }
    let n_inline = texts_.len();
    let mut lens = if hosted { vec![255usize, 256, 257, 4096] } else { vec![63usize, 64, 65, 255, 256, 257, 4095, 4096, 4097] };
    if !quick && !hosted {
        lens.extend([65535, 65536, 65537, (1 << 20) + 1]);
    }
    for n in lens {
        texts_.push(long_text(n));
    }
    par_for_guarded(cx, prop, texts_.len(), threads, |ti| {
        if part.is_some_and(|(k, n)| ti % n != k) {
            return;
        }
        let t = &texts_[ti];
        cx.trace(&format!("C01 sweep on a {}-byte text", t.len()));
        let idxs: Vec<usize> = {
            let mut v = vec![0, 1, t.len() / 2, t.len().saturating_sub(1), t.len(), t.len() + 1];
            // the nearest char boundaries around the middle and the end
            for base in [t.len() / 2, t.len().saturating_sub(4)] {
                for d in 0..4 {
                    if t.is_char_boundary((base + d).min(t.len())) {
                        v.push((base + d).min(t.len()));
                        break;
                    }
                }
            }
            v.sort_unstable();
            v.dedup();
            v
        };
        for st in STORAGES {
            for op in 0..C01_OPS {
                let uses_idx = matches!(op, 3..=6 | 10);
                for &idx in if uses_idx { &idxs[..] } else { &idxs[..1] } {
                    shim::with(|s| s.reset());
                    let mut b = match build(t, st) {
                        Some(b) => b,
                        None => continue,
                    };
                    let mut m = t.clone();
                    cx.count();
                    let sib: Vec<Vec<u8>> = b.siblings.iter().map(|s| s.as_bytes().to_vec()).collect();
                    let r = c01_ops(&mut b.s, &mut m, op, idx);
                    let desc = format!("{st:?} text of {} bytes ending in {:#04x}: op #{op} at {idx}", t.len(), t.as_bytes().last().copied().unwrap_or(0));
                    let mut out = Vec::new();
                    match r {
                        Ok(true) => {}
                        Ok(false) => out.push(Viol { prop, oracle: "return-value", detail: format!("{desc}: returned value differs from String's") }),
                        Err(e) => out.push(Viol { prop, oracle: "outcome", detail: format!("{desc}: {e}") }),
                    }
                    if b.s.as_bytes() != m.as_bytes() || b.s.len() != m.len() || b.s.is_empty() != m.is_empty() {
                        let show = |x: &[u8]| String::from_utf8_lossy(&x[..x.len().min(40)]).into_owned();
                        out.push(Viol { prop, oracle: "text", detail: format!("{desc}: reads {:?}.. (len {}), String holds {:?}.. (len {})", show(b.s.as_bytes()), b.s.len(), show(m.as_bytes()), m.len()) });
                    }
                    for (s0, s1) in sib.iter().zip(b.siblings.iter()) {
                        if s0 != s1.as_bytes() {
                            out.push(Viol { prop, oracle: "sibling-text", detail: format!("{desc}: a string sharing the buffer changed") });
                        }
                    }
                    let errs = shim::with(|s| s.errors.first().cloned().or(s.audit().first().cloned()));
                    if let Some(e) = errs {
                        out.push(Viol { prop, oracle: "heap", detail: format!("{desc}: {e}") });
                    }
                    cx.report(&out, "op-sweep", &format!("{st:?}"), &desc);
                }
            }
        }
        cx.stats.class(if ti < n_inline { "every-16th-byte".to_string() } else { format!("long-text-{}", t.len()) });
        cx.stats.sample(|| format!("{}-byte text: {C01_OPS} operations x indices {idxs:?} x 7 storage states", t.len()));
    });
}
