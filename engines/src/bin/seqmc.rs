//! seqmc: explicit-state exploration of operation histories on the real crate.
//! Usage: seqmc --prop C01 --tier quick|thorough --out FILE --replay-dir DIR [--threads N] [--wall SECS]
//!        seqmc --replay FILE
use lsverif::explore::*;
use lsverif::plans;
use lsverif::report::{Report, write_replay};
use std::time::Instant;

fn arg(args: &[String], name: &str) -> Option<String> {
    args.iter().position(|a| a == name).and_then(|i| args.get(i + 1).cloned())
}

fn main() {
    let args: Vec<String> = std::env::args().collect();
    // knobs that must work as command-line arguments: cargo-miri replays the environment it saw
    // when the binary was *built*, so environment variables set for a later run are overridden
    for (flag, var) in [("--part", "LSVERIF_PART"), ("--depth", "LSVERIF_DEPTH"), ("--shim", "LSVERIF_SHIM"), ("--hosted", "LSVERIF_MIRI"), ("--hosted-plan", "LSVERIF_HOSTED_PLAN")] {
        match arg(&args, flag) {
            // SAFETY: single-threaded, nothing has read the environment yet
            Some(v) => unsafe { std::env::set_var(var, v) },
            None if flag != "--depth" && std::env::var_os("LSVERIF_KEEP_ENV").is_none() && args.iter().any(|a| a == "--hosted") => unsafe { std::env::remove_var(var) },
            None => {}
        }
    }
    lsverif::init();
    if let Some(path) = arg(&args, "--replay") {
        std::process::exit(plans::replay_file(&path));
    }
    // self-test of the unit-test renderer: one stand-alone test per operation of a profile
    if let Some(name) = arg(&args, "--unit-test-zoo") {
        let prof = plans::profile_by_name(&name).expect("profile");
        use lsverif::pool::Op;
        let mut out = String::new();
        for (n, &op) in prof.table.iter().enumerate() {
            let mut ops = vec![Op::FromStr(4), Op::Clone(0), Op::FromStr(1)];
            ops.truncate(prof.k.min(3));
            if op.is_ctor() || op.is_clone() {
                ops.pop();
            }
            if op.target().is_some_and(|t| t >= ops.len()) {
                continue;
            }
            ops.push(op);
            let t = lsverif::unittest::unit_test(&format!("zoo_{n}"), prof.k, &ops);
            // one prelude only
            let body = t.split_once("#[test]").unwrap();
            if out.is_empty() {
                out.push_str(body.0);
            }
            out.push_str("#[test]");
            out.push_str(body.1);
        }
        print!("{out}");
        return;
    }
    let prop = arg(&args, "--prop").expect("--prop");
    let tier = arg(&args, "--tier").unwrap_or_else(|| "quick".into());
    let out = arg(&args, "--out").unwrap_or_else(|| format!("/verif/evidence/{prop}.json"));
    let replay_dir = arg(&args, "--replay-dir").unwrap_or_else(|| "/verif/replays".into());
    if let Some(t) = arg(&args, "--trace-file") {
        lsverif::enable_trace(&t);
    }
    let threads: usize = if lsverif::tracing() { Some(1) } else { None }.or(arg(&args, "--threads").and_then(|s| s.parse().ok())).unwrap_or_else(|| std::thread::available_parallelism().map(|n| n.get()).unwrap_or(4));
    let seed: u64 = std::env::var("VERIF_SEED").ok().and_then(|s| s.parse().ok()).unwrap_or(0);
    let wall: f64 = arg(&args, "--wall").and_then(|s| s.parse().ok()).unwrap_or(if tier == "quick" { 120.0 } else { 3000.0 });
    let t0 = Instant::now();
    let budget = Budget { start: t0, wall_secs: wall, max_states: u64::MAX };
    let findings = Findings::default();
    let mut report = Report::new(&prop, &tier, seed, plans::level_of(&prop));
    plans::run_property(&prop, &tier, threads, &budget, &findings, &mut report);
    let found: Vec<Found> = findings.map.lock().unwrap().values().filter(|f| f.prop == prop).cloned().collect();
    let mut with_paths = Vec::new();
    // before anything is reported, every finding is re-executed twice and must repeat exactly:
    // a violation that does not reproduce is a machinery problem, not a verdict
    for f in found.iter().take(40) {
        let mut repeats = true;
        for round in 0..2 {
            match plans::reproduce(&prop, &f.sig, f.profile, &f.history, &f.extra, false, tier == "quick") {
                Ok(true) => {}
                Ok(false) => {
                    repeats = false;
                    report.machinery_errors.push(format!("finding {} did not reproduce on re-execution #{}", f.sig, round + 1));
                }
                Err(e) => {
                    repeats = false;
                    report.machinery_errors.push(format!("finding {} could not be re-executed: {e}", f.sig));
                }
            }
        }
        // only findings that repeat are reported as violations
        if repeats {
            let path = write_replay(&replay_dir, "seqmc", f, &tier);
            with_paths.push((f.clone(), path));
        }
    }
    let ev = report.to_json(t0.elapsed().as_secs_f64(), &with_paths);
    if let Some(dir) = std::path::Path::new(&out).parent() {
        let _ = std::fs::create_dir_all(dir);
    }
    std::fs::write(&out, serde_json::to_string_pretty(&ev).unwrap()).expect("write evidence");
    eprintln!("[{prop}/{tier}] states {} transitions {} probe-cases {} findings {} wall {:.1}s exhaustive {}", report.states, report.transitions, report.evaluations, with_paths.len(), t0.elapsed().as_secs_f64(), report.exhaustive);
    for (f, path) in &with_paths {
        println!("FINDING property={} signature={} replay={} :: {}", f.prop, f.sig, path, f.detail);
    }
    for e in &report.machinery_errors {
        eprintln!("MACHINERY: {e}");
    }
    // a confirmed (twice re-executed) violation is a verdict even if some other observation of
    // the same run did not repeat; with nothing confirmed, a non-repeating observation makes the
    // run a machinery failure, never a pass
    if !with_paths.is_empty() {
        std::process::exit(1);
    }
    std::process::exit(if report.machinery_errors.is_empty() { 0 } else { 2 });
}
