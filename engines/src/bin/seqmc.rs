use lsverif::explore::*;
use lsverif::pool::*;
use lsverif::profiles;
use std::time::Instant;

fn main() {
    lsverif::init();
    let args: Vec<String> = std::env::args().collect();
    let depth: usize = args.get(1).and_then(|s| s.parse().ok()).unwrap_or(3);
    let prof = match args.get(2).map(|s| s.as_str()) {
        Some("share") => profiles::share(),
        Some("inline") => profiles::inline_only(),
        Some("static") => profiles::statics(),
        Some("index") => profiles::index(),
        Some("wide-try") => profiles::wide(Form::Try),
        _ => profiles::wide(Form::Plain),
    };
    let findings = Findings::default();
    let budget = Budget { start: Instant::now(), wall_secs: 600.0, max_states: u64::MAX };
    let ex = Explorer { prof: &prof, props: Props::all(), threads: 16, findings: &findings, budget: &budget, close_rotations: true };
    let roots = if args.get(3).map(|s| s.as_str()) == Some("seeds") { profiles::seeds(&prof) } else { vec![vec![]] };
    let r = ex.run(roots, depth, true);
    println!("states {} transitions {} probes {} outcomes {}", r.states, r.transitions, r.state_probes, r.outcomes.len());
    for (k, f) in findings.map.lock().unwrap().iter() {
        println!("FOUND {} x{} :: {} :: {:?}", k, f.count, f.detail, f.history);
    }
}
