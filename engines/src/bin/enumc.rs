#![allow(unused_assignments, unused_variables)]
//! enumc: exhaustive enumeration of bounded input domains against std (DESIGN §6).
//! Serves C14 (integers), C15 (to_lean_string / floats), C16 (UTF-8/UTF-16 decoding), C19 (serde/arbitrary).
use lean_string::{LeanString, ToLeanString, ToLeanStringError};

#[cfg(not(miri))]
#[global_allocator]
static GLOBAL: lsverif::tlalloc::TlAlloc = lsverif::tlalloc::TlAlloc;
use serde_json::{Value, json};
use std::collections::BTreeMap;
use std::fmt::{self, Display, Write as _};
use std::num::NonZero;
use std::sync::Mutex;
use lsverif::Counter64 as AtomicU64;
use std::sync::atomic::Ordering;
use std::time::Instant;

/// text of a LeanString for messages; never trusts it to be valid UTF-8
fn show(l: &LeanString) -> String {
    String::from_utf8_lossy(l.as_bytes()).into_owned()
}

fn arg(args: &[String], name: &str) -> Option<String> {
    args.iter().position(|a| a == name).and_then(|i| args.get(i + 1).cloned())
}

struct Ctx {
    prop: String,
    evals: AtomicU64,
    classes: Mutex<BTreeMap<String, u64>>,
    findings: Mutex<BTreeMap<String, (String, Value, u64)>>,
    domains: Mutex<Vec<Value>>,
    samples: Mutex<Vec<Value>>,
    threads: usize,
    start: Instant,
    wall: f64,
    capped: Mutex<Vec<String>>,
}

impl Ctx {
    fn fail(&self, sig: &str, detail: String, input: Value) {
        let mut f = self.findings.lock().unwrap();
        let sig = format!("{}/{}", self.prop, sig);
        let e = f.entry(sig).or_insert((detail, input, 0));
        e.2 += 1;
    }
    fn class(&self, c: String, n: u64) {
        *self.classes.lock().unwrap().entry(c).or_default() += n;
    }
    fn domain(&self, name: &str, size: u64, exhaustive: bool, what: &str) {
        self.domains.lock().unwrap().push(json!({"domain": name, "inputs": size, "complete_enumeration": exhaustive, "what": what}));
        eprintln!("[{}] {name}: {size} inputs ({:.1}s)", self.prop, self.start.elapsed().as_secs_f64());
    }
    fn sample(&self, v: Value) {
        let mut s = self.samples.lock().unwrap();
        if s.len() < 12 {
            s.push(v);
        }
    }
    fn over(&self) -> bool {
        self.start.elapsed().as_secs_f64() > self.wall
    }
}

/// Runs f(lo, hi) over [0, total) split in blocks, on all threads. Returns false if the wall cap stopped it.
fn par_ranges(cx: &Ctx, total: u64, block: u64, f: impl Fn(u64, u64) + Sync) -> bool {
    let next = AtomicU64::new(0);
    let complete = std::sync::atomic::AtomicBool::new(true);
    std::thread::scope(|sc| {
        for _ in 0..cx.threads {
            sc.spawn(|| {
                loop {
                    let lo = next.fetch_add(block, Ordering::Relaxed);
                    if lo >= total {
                        break;
                    }
                    if cx.over() {
                        if complete.swap(false, Ordering::Relaxed) {
                            cx.capped.lock().unwrap().push(format!("wall cap hit after {:.0}s: a domain of {total} inputs was not finished (its count below is the planned size)", cx.wall));
                        }
                        break;
                    }
                    f(lo, (lo + block).min(total));
                }
            });
        }
    });
    complete.into_inner()
}

struct Stack {
    b: [u8; 64],
    n: usize,
}
impl fmt::Write for Stack {
    fn write_str(&mut self, s: &str) -> fmt::Result {
        self.b[self.n..self.n + s.len()].copy_from_slice(s.as_bytes());
        self.n += s.len();
        Ok(())
    }
}

/// A panic inside the code under test is a violation of the property being enumerated, never
/// a crash of the engine.
fn guarded(cx: &Ctx, what: &str, input: Value, f: impl FnOnce()) {
    if lsverif::tracing() {
        lsverif::trace(|| input.to_string());
    }
    if let Err(p) = std::panic::catch_unwind(std::panic::AssertUnwindSafe(f)) {
        let msg = p.downcast_ref::<String>().cloned().or_else(|| p.downcast_ref::<&str>().map(|s| s.to_string())).unwrap_or_default();
        cx.fail(&format!("{what}/panicked"), format!("{what}: the call panicked: {msg}"), input);
    }
}

#[inline]
fn int_ok<T: Display + ToLeanString + Copy + std::panic::RefUnwindSafe>(v: T) -> bool {
    let l = match std::panic::catch_unwind(|| v.to_lean_string()) {
        Ok(l) => l,
        Err(_) => return false,
    };
    let mut b = Stack { b: [0; 64], n: 0 };
    let _ = write!(b, "{v}");
    l.as_bytes() == &b.b[..b.n]
}

macro_rules! check_int {
    ($cx:expr, $t:ty, $v:expr, $cnt:expr) => {{
        let v: $t = $v;
        if lsverif::tracing() {
            lsverif::trace(|| json!({"type": stringify!($t), "value": v.to_string()}).to_string());
        }
        $cnt += 1;
        if !int_ok(v) {
            let got = std::panic::catch_unwind(|| v.to_lean_string().as_str().to_string()).unwrap_or_else(|_| "<panicked>".into());
            $cx.fail(concat!(stringify!($t), "/mismatch"), format!("{}::to_lean_string({}) = {:?}, Display gives {:?}", stringify!($t), v, got, v.to_string()), json!({"type": stringify!($t), "value": v.to_string()}));
        }
        if let Some(nz) = NonZero::<$t>::new(v) {
            $cnt += 1;
            if !int_ok(nz) {
                let got = std::panic::catch_unwind(|| nz.to_lean_string().as_str().to_string()).unwrap_or_else(|_| "<panicked>".into());
                $cx.fail(concat!("NonZero<", stringify!($t), ">/mismatch"), format!("NonZero<{}>::to_lean_string({}) = {:?}", stringify!($t), v, got), json!({"type": concat!("NonZero<", stringify!($t), ">"), "value": v.to_string()}));
            }
        }
    }};
}

/// the structured 64/128-bit families as i128 candidates (filtered per type by try_from)
fn families(quick: bool, max_digits: u32, window: bool) -> Vec<i128> {
    families_sized(quick, max_digits, window, false)
}

/// `reduced`: fewer boundary widths and remainders in F-split (Miri-hosted runs)
fn families_sized(quick: bool, max_digits: u32, window: bool, reduced: bool) -> Vec<i128> {
    let mut v: Vec<i128> = Vec::new();
    // F-pow: 10^k + d, 2^k + d, both signs
    let mut p: i128 = 1;
    for _ in 0..max_digits {
        for d in -3..=3 {
            v.push(p + d);
            v.push(-(p + d));
        }
        p = p.saturating_mul(10);
    }
    for k in 0..127 {
        let b = 1i128 << k;
        for d in -3..=3 {
            v.push(b + d);
            v.push(-(b + d));
        }
    }
    // F-split: a * 10^k + b where the quotient a or the remainder b sits on a machine-width
    // boundary (an implementation may peel digits off in blocks of 10^k and continue in a
    // narrower type)
    {
        let mut edges: Vec<i128> = Vec::new();
        for w in if reduced { vec![8u32, 16, 31, 32, 63, 64] } else { vec![7u32, 8, 15, 16, 24, 31, 32, 53, 63, 64] } {
            for d in if reduced { -1i128..=1 } else { -2i128..=2 } {
                edges.push((1i128 << w) + d);
            }
        }
        let mut pk: i128 = 10;
        for _k in 1..=22 {
            let rems = if reduced { vec![0, pk - 1, pk / 10 * 9 + 7] } else { vec![0, 1, pk / 2, pk - 1, pk / 10, pk / 10 * 9 + 7] };
            for &a in &edges {
                for &b in &rems {
                    if let Some(x) = a.checked_mul(pk).and_then(|x| x.checked_add(b)) {
                        v.push(x);
                        v.push(-x);
                    }
                }
            }
            for &b in &edges {
                if b < pk {
                    for a in if reduced { vec![1i128, 99999] } else { vec![1i128, 9, 42, 99999] } {
                        if let Some(x) = a.checked_mul(pk).and_then(|x| x.checked_add(b)) {
                            v.push(x);
                            v.push(-x);
                        }
                    }
                }
            }
            pk = pk.saturating_mul(10);
        }
    }
    if window {
        // F-window: every digit count D, every position of a 4-digit window, every window value,
        // three backgrounds
        let step = if quick { 7 } else { 1 };
        for digits in 1..=max_digits {
            let backgrounds: [Vec<u8>; 3] = [
                std::iter::once(1u8).chain(std::iter::repeat_n(0, digits as usize - 1)).collect(),
                std::iter::repeat_n(9, digits as usize).collect(),
                (0..digits).map(|i| ((i + 1) % 10) as u8).map(|d| if d == 0 { 1 } else { d }).collect(),
            ];
            for bg in &backgrounds {
                let wlen = 4.min(digits as usize);
                for pos in 0..=(digits as usize - wlen) {
                    let mut w = 0;
                    while w < 10usize.pow(wlen as u32) {
                        let mut ds = bg.clone();
                        let mut x = w;
                        for j in (0..wlen).rev() {
                            ds[pos + j] = (x % 10) as u8;
                            x /= 10;
                        }
                        if ds[0] == 0 && digits > 1 {
                            ds[0] = 1;
                        }
                        let mut val: i128 = 0;
                        let mut overflow = false;
                        for d in &ds {
                            match val.checked_mul(10).and_then(|x| x.checked_add(*d as i128)) {
                                Some(x) => val = x,
                                None => {
                                    overflow = true;
                                    break;
                                }
                            }
                        }
                        if !overflow {
                            v.push(val);
                            v.push(-val);
                        }
                        w += step;
                    }
                }
            }
        }
    }
    v
}

fn c14(cx: &Ctx, quick: bool) {
    // 8- and 16-bit types: every value
    let mut n = 0u64;
    for v in u8::MIN..=u8::MAX {
        check_int!(cx, u8, v, n);
        check_int!(cx, i8, v as i8, n);
    }
    for v in u16::MIN..=u16::MAX {
        check_int!(cx, u16, v, n);
        check_int!(cx, i16, v as i16, n);
    }
    cx.domain("u8,i8,u16,i16 and their NonZero forms: every value", n, true, "all values");
    cx.class("8/16-bit".into(), n);
    // 32-bit types
    let total32: u64 = 1 << 32;
    let stride: u64 = if quick { 37 } else { 1 };
    let cnt = AtomicU64::new(0);
    let complete = par_ranges(cx, total32 / stride, 1 << 16, |lo, hi| {
        let mut c = 0u64;
        for i in lo..hi {
            let v = (i * stride) as u32;
            check_int!(cx, u32, v, c);
            check_int!(cx, i32, v as i32, c);
        }
        cnt.fetch_add(c, Ordering::Relaxed);
    });
    let c32 = cnt.load(Ordering::Relaxed);
    cx.domain(if quick { "u32,i32,NonZero: every 37th bit pattern (quick tier)" } else { "u32,i32,NonZero<u32>,NonZero<i32>: all 2^32 bit patterns" }, c32, !quick && complete, "bit patterns 0..2^32 reinterpreted as u32 and i32");
    if !complete {
        cx.capped.lock().unwrap().push("32-bit sweep stopped by the wall cap".into());
    }
    cx.class("32-bit".into(), c32);
    // F-low for every type: |v| < bound
    let low: i128 = if quick { 200_000 } else { 10_000_000 };
    let cnt = AtomicU64::new(0);
    par_ranges(cx, (2 * low) as u64, 1 << 14, |lo, hi| {
        let mut c = 0u64;
        for i in lo..hi {
            let x = i as i128 - low;
            if let Ok(v) = i64::try_from(x) {
                check_int!(cx, i64, v, c);
                check_int!(cx, isize, v as isize, c);
            }
            if let Ok(v) = u64::try_from(x) {
                check_int!(cx, u64, v, c);
                check_int!(cx, usize, v as usize, c);
                check_int!(cx, u128, v as u128, c);
            }
            check_int!(cx, i128, x, c);
            if let Ok(v) = i32::try_from(x) {
                check_int!(cx, i32, v, c);
            }
            if let Ok(v) = u32::try_from(x) {
                check_int!(cx, u32, v, c);
            }
        }
        cnt.fetch_add(c, Ordering::Relaxed);
    });
    cx.domain("F-low: every |v| below the bound in i32,u32,i64,u64,isize,usize,i128,u128 (+NonZero)", cnt.load(Ordering::Relaxed), true, &format!("|v| < {low}"));
    cx.class("F-low".into(), cnt.load(Ordering::Relaxed));
    // structured families for 64- and 128-bit types
    let fam = families(quick, 39, true);
    let cnt = AtomicU64::new(0);
    let per_digits: Mutex<BTreeMap<String, u64>> = Mutex::new(BTreeMap::new());
    par_ranges(cx, fam.len() as u64, 1 << 12, |lo, hi| {
        let mut c = 0u64;
        let mut local: BTreeMap<String, u64> = BTreeMap::new();
        for &x in &fam[lo as usize..hi as usize] {
            let before = c;
            if let Ok(v) = i64::try_from(x) {
                check_int!(cx, i64, v, c);
                check_int!(cx, isize, v as isize, c);
            }
            if let Ok(v) = u64::try_from(x) {
                check_int!(cx, u64, v, c);
                check_int!(cx, usize, v as usize, c);
            }
            if let Ok(v) = u128::try_from(x) {
                check_int!(cx, u128, v, c);
            }
            check_int!(cx, i128, x, c);
            if let Ok(v) = i32::try_from(x) {
                check_int!(cx, i32, v, c);
            }
            if let Ok(v) = u32::try_from(x) {
                check_int!(cx, u32, v, c);
            }
            if let Ok(v) = i16::try_from(x) {
                check_int!(cx, i16, v, c);
            }
            if let Ok(v) = u16::try_from(x) {
                check_int!(cx, u16, v, c);
            }
            let digits = x.unsigned_abs().to_string().len();
            *local.entry(format!("{}{digits}-digits", if x < 0 { "neg-" } else { "" })).or_default() += c - before;
        }
        cnt.fetch_add(c, Ordering::Relaxed);
        let mut g = per_digits.lock().unwrap();
        for (k, v) in local {
            *g.entry(k).or_default() += v;
        }
    });
    // u128 values above i128::MAX: powers and windows mirrored from the top
    let mut c = 0u64;
    for x in &fam {
        if *x >= 0 {
            let v = u128::MAX - (*x as u128);
            check_int!(cx, u128, v, c);
        }
    }
    for d in 0..=3u128 {
        check_int!(cx, u128, u128::MAX - d, c);
        check_int!(cx, u64, u64::MAX - d as u64, c);
        check_int!(cx, i64, i64::MAX - d as i64, c);
        check_int!(cx, i64, i64::MIN + d as i64, c);
        check_int!(cx, i128, i128::MAX - d as i128, c);
        check_int!(cx, i128, i128::MIN + d as i128, c);
        check_int!(cx, usize, usize::MAX - d as usize, c);
        check_int!(cx, isize, isize::MIN + d as isize, c);
        check_int!(cx, isize, isize::MAX - d as isize, c);
    }
    let total = cnt.load(Ordering::Relaxed) + c;
    cx.domain("F-pow + F-split + F-window + extremes: 10^k+d, 2^k+d (|d|<=3); a*10^k+b with a or b on a machine-width boundary (2^7..2^64 +-2) for every k; every digit count x 4-digit window position x window value x 3 backgrounds; both signs, type extremes, mirrored from u128::MAX", total, true, &format!("{} candidate values, each tried in every integer type that can hold it{}", fam.len(), if quick { " (quick tier: every 7th window value)" } else { "" }));
    for (k, v) in per_digits.into_inner().unwrap() {
        cx.class(format!("family/{k}"), v);
    }
    if !quick {
        // the 32-bit values lifted into the 64-bit types
        let cnt = AtomicU64::new(0);
        let complete = par_ranges(cx, 1 << 32, 1 << 16, |lo, hi| {
            let mut c = 0u64;
            for i in lo..hi {
                check_int!(cx, u64, i, c);
                check_int!(cx, i64, -(i as i64), c);
            }
            cnt.fetch_add(c, Ordering::Relaxed);
        });
        cx.domain("all 2^32 values lifted into u64 and (negated) i64", cnt.load(Ordering::Relaxed), complete, "0..2^32 as u64, -(0..2^32) as i64");
        cx.class("lifted-32".into(), cnt.load(Ordering::Relaxed));
    }
    cx.sample(json!({"type": "i64", "value": "-99999999999", "lean": (-99999999999i64).to_lean_string().as_str()}));
    cx.sample(json!({"type": "u128", "value": u128::MAX.to_string(), "lean": u128::MAX.to_lean_string().as_str()}));
    cx.sample(json!({"type": "NonZero<i8>", "value": "-128", "lean": NonZero::<i8>::new(-128).unwrap().to_lean_string().as_str()}));
}

/// C14 hosted by Miri for a target whose integer paths differ (32-bit targets format the
/// <= 32-bit types with u32 arithmetic and keep at most 8 bytes inline): every 8- and 16-bit value
/// and the F-pow / F-split families and type extremes in every integer type, split over parts.
fn c14_hosted(cx: &Ctx, k: u64, n: u64) {
    let mut c = 0u64;
    let mut idx = 0u64;
    macro_rules! mine {
        () => {{
            idx += 1;
            (idx - 1) % n == k
        }};
    }
    for v in u8::MIN..=u8::MAX {
        if mine!() {
            check_int!(cx, u8, v, c);
            check_int!(cx, i8, v as i8, c);
        }
    }
    for v in (u16::MIN..=u16::MAX).filter(|v| v % 13 == 0 || v % 1000 >= 997 || v % 1000 <= 2 || *v >= u16::MAX - 3 || (*v as i16).unsigned_abs() >= i16::MAX as u16 - 3) {
        if mine!() {
            check_int!(cx, u16, v, c);
            check_int!(cx, i16, v as i16, c);
        }
    }
    let small = c;
    let fam = families_sized(true, 39, false, true);
    for &x in &fam {
        if !mine!() {
            continue;
        }
        if let Ok(v) = i64::try_from(x) {
            check_int!(cx, i64, v, c);
        }
        if let Ok(v) = isize::try_from(x) {
            check_int!(cx, isize, v, c);
        }
        if let Ok(v) = u64::try_from(x) {
            check_int!(cx, u64, v, c);
        }
        if let Ok(v) = usize::try_from(x) {
            check_int!(cx, usize, v, c);
        }
        if let Ok(v) = u128::try_from(x) {
            check_int!(cx, u128, v, c);
            check_int!(cx, u128, u128::MAX - v, c);
        }
        check_int!(cx, i128, x, c);
        if let Ok(v) = i32::try_from(x) {
            check_int!(cx, i32, v, c);
        }
        if let Ok(v) = u32::try_from(x) {
            check_int!(cx, u32, v, c);
        }
    }
    // F-div: q * 10^4 + r for every 97th quotient q of the u32 range (and the last 50), r next to
    // a multiple of 10^4 - the values on which a block-wise (4 digits at a time) conversion of a
    // 32-bit word depends, in the 32-bit types and lifted into the wider ones
    let fam_end = c;
    let qmax = (u32::MAX / 10_000) as u64;
    for q in (0..=qmax).filter(|q| q % 97 == 0 || *q + 50 > qmax) {
        for r in [0u64, 1, 9_998, 9_999] {
            if !mine!() {
                continue;
            }
            let v = q * 10_000 + r;
            if let Ok(v) = u32::try_from(v) {
                check_int!(cx, u32, v, c);
                check_int!(cx, usize, v as usize, c);
                check_int!(cx, i32, v as i32, c);
                check_int!(cx, isize, v as i32 as isize, c);
            }
            check_int!(cx, u64, v, c);
            check_int!(cx, i64, -(v as i64), c);
        }
    }
    let div = c - fam_end;
    if k == 0 {
        for d in 0..=3u128 {
            check_int!(cx, u128, u128::MAX - d, c);
            check_int!(cx, u64, u64::MAX - d as u64, c);
            check_int!(cx, i64, i64::MAX - d as i64, c);
            check_int!(cx, i64, i64::MIN + d as i64, c);
            check_int!(cx, i128, i128::MAX - d as i128, c);
            check_int!(cx, i128, i128::MIN + d as i128, c);
            check_int!(cx, usize, usize::MAX - d as usize, c);
            check_int!(cx, isize, isize::MIN + d as isize, c);
            check_int!(cx, isize, isize::MAX - d as isize, c);
            check_int!(cx, u32, u32::MAX - d as u32, c);
            check_int!(cx, i32, i32::MIN + d as i32, c);
            check_int!(cx, i32, i32::MAX - d as i32, c);
        }
    }
    cx.domain(&format!("hosted (target: {} bit, {} endian), part {k} of {n}: every u8/i8 value, every 13th u16/i16 value plus those next to multiples of 1000 and the extremes; F-pow + reduced F-split + F-div (q * 10^4 + r, r in 0, 1, 9998, 9999, for every 97th q below 2^32 / 10^4 and the last 50) + type extremes in every integer type that can hold the value (+NonZero)", usize::BITS, if cfg!(target_endian = "big") { "big" } else { "little" }), c, true, &format!("{} candidate values in the families", fam.len()));
    cx.class("8/16-bit".into(), small);
    cx.class("families".into(), c - small - div);
    cx.class("F-div".into(), div);
}

// ---------------------------------------------------------------------------------------
// C15

/// A minimal allocator hook for the "never a partial string" clause of C15: it can refuse the
/// k-th request the crate issues on this thread (everything else goes to the system allocator).
mod refuse {
    use lean_string::verif_hooks::{Access, HookTable};
    use std::alloc::Layout;
    use std::cell::Cell;
    thread_local! {
        pub static COUNT: Cell<u64> = const { Cell::new(0) };
        pub static FAIL_AT: Cell<u64> = const { Cell::new(0) };
    }
    fn refuse_now() -> bool {
        let n = COUNT.with(|c| {
            c.set(c.get() + 1);
            c.get()
        });
        FAIL_AT.with(|f| f.get() == n)
    }
    unsafe fn a(l: Layout) -> *mut u8 {
        if refuse_now() { std::ptr::null_mut() } else { unsafe { std::alloc::alloc(l) } }
    }
    unsafe fn r(p: *mut u8, l: Layout, n: usize) -> *mut u8 {
        if refuse_now() { std::ptr::null_mut() } else { unsafe { std::alloc::realloc(p, l, n) } }
    }
    unsafe fn d(p: *mut u8, l: Layout) {
        unsafe { std::alloc::dealloc(p, l) }
    }
    fn note(_: Access, _: *const u8, _: isize, _: usize, _: &'static str) {}
    pub static TABLE: HookTable = HookTable { alloc: a, realloc: r, dealloc: d, note };
    /// runs f with the k-th request refused (k = 0: none); returns (result, requests issued)
    pub fn with<R>(k: u64, f: impl FnOnce() -> R) -> (R, u64) {
        COUNT.with(|c| c.set(0));
        FAIL_AT.with(|x| x.set(k));
        let r = f();
        FAIL_AT.with(|x| x.set(0));
        (r, COUNT.with(|c| c.get()))
    }
}

/// writes its pieces and ignores what write_str returns
struct Swallow<'a>(Vec<&'a str>);
impl Display for Swallow<'_> {
    fn fmt(&self, f: &mut fmt::Formatter<'_>) -> fmt::Result {
        for p in &self.0 {
            let _ = f.write_str(p);
        }
        Ok(())
    }
}

struct Pieces<'a> {
    pieces: Vec<&'a str>,
    err_after: Option<usize>,
}
impl Display for Pieces<'_> {
    fn fmt(&self, f: &mut fmt::Formatter<'_>) -> fmt::Result {
        for (i, p) in self.pieces.iter().enumerate() {
            if self.err_after == Some(i) {
                return Err(fmt::Error);
            }
            f.write_str(p)?;
        }
        if self.err_after == Some(self.pieces.len()) {
            return Err(fmt::Error);
        }
        Ok(())
    }
}

fn width_texts(max: usize) -> Vec<String> {
    let chars = ['a', 'é', '€', '😀'];
    let mut out = vec![String::new()];
    let mut cur = vec![String::new()];
    loop {
        let mut next = Vec::new();
        for t in &cur {
            for c in chars {
                if t.len() + c.len_utf8() <= max {
                    let mut s = t.clone();
                    s.push(c);
                    next.push(s);
                }
            }
        }
        if next.is_empty() {
            break;
        }
        out.extend(next.iter().cloned());
        cur = next;
    }
    out
}

fn display_eq<T: Display + ToLeanString>(cx: &Ctx, what: &str, v: &T, input: Value) {
    let inp2 = input.clone();
    guarded(cx, what, inp2, || display_eq_inner(cx, what, v, input));
}
fn display_eq_inner<T: Display + ToLeanString>(cx: &Ctx, what: &str, v: &T, input: Value) {
    let want = v.to_string();
    let got = v.to_lean_string();
    let got2 = v.try_to_lean_string();
    if got.as_str() != want || got2.as_ref().map(|s| s.as_str()) != Ok(want.as_str()) {
        cx.fail(&format!("{what}/mismatch"), format!("{what}: to_lean_string gives {:?}, to_string gives {:?}", got.as_str(), want), input);
    }
}

fn f32_ok(bits: u32) -> bool {
    if lsverif::tracing() {
        lsverif::trace(|| json!({"f32_bits": bits}).to_string());
    }
    let f = f32::from_bits(bits);
    let l = match std::panic::catch_unwind(|| f.to_lean_string()) {
        Ok(l) => l,
        Err(_) => return false,
    };
    match l.parse::<f32>() {
        Ok(g) => g.to_bits() == bits || (f.is_nan() && g.is_nan()),
        Err(_) => false,
    }
}
fn f64_ok(bits: u64) -> bool {
    if lsverif::tracing() {
        lsverif::trace(|| json!({"f64_bits": bits}).to_string());
    }
    let f = f64::from_bits(bits);
    let l = match std::panic::catch_unwind(|| f.to_lean_string()) {
        Ok(l) => l,
        Err(_) => return false,
    };
    match l.parse::<f64>() {
        Ok(g) => g.to_bits() == bits || (f.is_nan() && g.is_nan()),
        Err(_) => false,
    }
}

fn c15(cx: &Ctx, quick: bool) {
    std::panic::set_hook(Box::new(|_| {}));
    let mut n = 0u64;
    for b in [true, false] {
        display_eq(cx, "bool", &b, json!({"bool": b}));
        n += 1;
    }
    // every char
    let cnt = AtomicU64::new(0);
    par_ranges(cx, 0x110000, 1 << 12, |lo, hi| {
        let mut c = 0;
        for u in lo..hi {
            if let Some(ch) = char::from_u32(u as u32) {
                display_eq(cx, "char", &ch, json!({"char": u}));
                if LeanString::from(ch).as_str() != ch.to_string() {
                    cx.fail("char/from", format!("From<char>({u:#x}) differs"), json!({"char": u}));
                }
                c += 1;
            }
        }
        cnt.fetch_add(c, Ordering::Relaxed);
    });
    cx.domain("bool: both values; char: every Unicode scalar value", n + cnt.load(Ordering::Relaxed), true, "all 1 112 064 chars through to_lean_string, try_to_lean_string and From<char>");
    cx.class("char".into(), cnt.load(Ordering::Relaxed));
    // strings through every Display carrier
    let texts = width_texts(if quick { 11 } else { 18 });
    let cnt = AtomicU64::new(0);
    par_ranges(cx, texts.len() as u64, 256, |lo, hi| {
        let mut c = 0;
        for t in &texts[lo as usize..hi as usize] {
            let inp = json!({"text": t});
            display_eq(cx, "String", t, inp.clone());
            display_eq(cx, "&str", &t.as_str(), inp.clone());
            display_eq(cx, "LeanString", &LeanString::from(t.as_str()), inp.clone());
            display_eq(cx, "Cow<str>", &std::borrow::Cow::Borrowed(t.as_str()), inp.clone());
            display_eq(cx, "Box<str>", &Box::<str>::from(t.as_str()), inp.clone());
            display_eq(cx, "format_args", &format_args!("{t}|{}", t.len()), inp);
            c += 6;
        }
        cnt.fetch_add(c, Ordering::Relaxed);
    });
    cx.domain("strings: every text over a/é/€/😀 up to the length bound, as String, &str, LeanString, Cow<str>, Box<str>, fmt::Arguments", cnt.load(Ordering::Relaxed), true, &format!("{} texts x 6 carriers", texts.len()));
    cx.class("strings".into(), cnt.load(Ordering::Relaxed));
    // user Display types emitting a text in pieces: every split at char boundaries
    let base: Vec<String> = {
        let mut v = width_texts(if quick { 8 } else { 12 }).into_iter().filter(|t| t.chars().count() <= 8).collect::<Vec<_>>();
        v.push("0123456789abcdef".into());
        v.push("0123456789abcdefg".into());
        v.push("0123456é9abcdef€".into());
        v
    };
    let cnt = AtomicU64::new(0);
    par_ranges(cx, base.len() as u64, 64, |lo, hi| {
        let mut c = 0u64;
        for t in &base[lo as usize..hi as usize] {
            let bounds: Vec<usize> = t.char_indices().map(|(i, _)| i).skip(1).collect();
            let nsplit = bounds.len().min(12);
            for mask in 0u32..(1 << nsplit) {
                let mut pieces = Vec::new();
                let mut start = 0;
                for (bi, &b) in bounds.iter().enumerate().take(nsplit) {
                    if mask & (1 << bi) != 0 {
                        pieces.push(&t[start..b]);
                        start = b;
                    }
                }
                pieces.push(&t[start..]);
                let np = pieces.len();
                let d = Pieces { pieces: pieces.clone(), err_after: None };
                display_eq(cx, "Display-in-pieces", &d, json!({"text": t, "split_mask": mask}));
                c += 1;
                // a Display that reports an error after j pieces: Err(Fmt), never a partial value
                for j in 0..=np {
                    let d = Pieces { pieces: pieces.clone(), err_after: Some(j) };
                    c += 1;
                    match d.try_to_lean_string() {
                        Err(ToLeanStringError::Fmt(_)) => {}
                        other => cx.fail("Display-error/not-reported", format!("Display of {t:?} failing after {j} of {np} pieces: try_to_lean_string returned {other:?}"), json!({"text": t, "split_mask": mask, "err_after": j})),
                    }
                    let r = std::panic::catch_unwind(std::panic::AssertUnwindSafe(|| d.to_lean_string()));
                    if r.is_ok() {
                        cx.fail("Display-error/no-panic", format!("Display of {t:?} failing after {j} pieces: to_lean_string returned a value"), json!({"text": t, "split_mask": mask, "err_after": j}));
                    }
                }
            }
        }
        cnt.fetch_add(c, Ordering::Relaxed);
    });
    // piece-size sequences crossing the inline limit mid-write
    let sizes = [0usize, 1, 7, 8, 9, 16, 17];
    let long = "0123456789abcdefghijklmnopqrstuvwxyzABCDEFGHIJKLMNOPQRSTUVWXYZ0123456789";
    let mut c2 = 0u64;
    for n in 1..=4usize {
        for code in 0..sizes.len().pow(n as u32) {
            let mut x = code;
            let mut pieces = Vec::new();
            let mut off = 0;
            for _ in 0..n {
                let s = sizes[x % sizes.len()];
                x /= sizes.len();
                pieces.push(&long[off..off + s]);
                off += s;
            }
            let d = Pieces { pieces, err_after: None };
            display_eq(cx, "Display-piece-sizes", &d, json!({"piece_sizes_code": code, "n": n}));
            c2 += 1;
        }
    }
    // never a partial string: with every single allocator request refused in turn, the result is
    // Err(..) (or a panic in the plain form) or the complete text - for Display impls that
    // propagate write errors and for ones that swallow them
    lean_string::verif_hooks::install(Some(&refuse::TABLE));
    let mut c3 = 0u64;
    for n in 1..=4usize {
        for code in 0..sizes.len().pow(n as u32) {
            let mut x = code;
            let mut pieces = Vec::new();
            let mut off = 0;
            for _ in 0..n {
                let s = sizes[x % sizes.len()];
                x /= sizes.len();
                pieces.push(&long[off..off + s]);
                off += s;
            }
            let full: String = pieces.concat();
            for swallow in [false, true] {
                let run = |k: u64| {
                    refuse::with(k, || {
                        std::panic::catch_unwind(std::panic::AssertUnwindSafe(|| {
                            if swallow { Swallow(pieces.clone()).try_to_lean_string() } else { Pieces { pieces: pieces.clone(), err_after: None }.try_to_lean_string() }
                        }))
                    })
                };
                let (_, requests) = run(0);
                for k in 1..=requests {
                    c3 += 1;
                    let (r, _) = run(k);
                    let ok = match &r {
                        Ok(Ok(s)) => s.as_str() == full,
                        Ok(Err(_)) => true,
                        Err(_) => false,
                    };
                    if !ok {
                        cx.fail("Display-partial/under-refused-allocation", format!("try_to_lean_string of a Display writing pieces of sizes {:?} (swallowing write errors: {swallow}) with allocator request {k} refused returned {:?}; the complete text is {full:?}", pieces.iter().map(|p| p.len()).collect::<Vec<_>>(), r.as_ref().map(|x| x.as_ref().map(|s| s.as_str().to_string())).map_err(|_| "panic")), json!({"piece_sizes_code": code, "n": n, "swallow": swallow, "refuse": k}));
                    }
                }
            }
        }
    }
    lean_string::verif_hooks::install(None);
    cx.domain("never a partial string: piece-size sequences {0,1,7,8,9,16,17}^(<=4), propagating and swallowing Display impls, every single allocator request refused in turn", c3, true, "try_to_lean_string must return Err or the complete text");
    cx.class("display-under-refusal".into(), c3);
    cx.domain("user Display types: every split of every base text at char boundaries; every error position; piece-size sequences {0,1,7,8,9,16,17}^(<=4)", cnt.load(Ordering::Relaxed) + c2, true, &format!("{} base texts", base.len()));
    cx.class("display-pieces".into(), cnt.load(Ordering::Relaxed) + c2);
    // floats
    std::panic::set_hook(Box::new(|_| {}));
    let (total, stride_note): (u64, &str) = if quick { (1 << 32, "quick tier: all 2^8 sign/exponent combinations... every 251st bit pattern plus all exponents x 256 mantissas") } else { (1 << 32, "all 2^32 bit patterns") };
    let cnt = AtomicU64::new(0);
    let complete = if quick {
        // all 512 sign/exponent values x 256 structured mantissas, plus a stride over everything
        let mut mants: Vec<u32> = vec![0, 1, 2, 0x7FFFFF, 0x7FFFFE, 0x400000, 0x555555, 0x2AAAAA];
        for k in 0..23 {
            mants.push(1 << k);
            mants.push((1 << k) - 1);
            mants.push(0x7FFFFF ^ (1 << k));
        }
        for k in 0..170 {
            mants.push((k * 49157) & 0x7FFFFF);
        }
        let mut c = 0u64;
        for se in 0..512u32 {
            for &m in &mants {
                let bits = (se << 23) | m;
                c += 1;
                if !f32_ok(bits) {
                    cx.fail("f32/round-trip", format!("f32 bits {bits:#x}: {:?} does not parse back", f32::from_bits(bits).to_lean_string().as_str()), json!({"f32_bits": bits}));
                }
            }
        }
        cnt.fetch_add(c, Ordering::Relaxed);
        par_ranges(cx, total / 251, 1 << 14, |lo, hi| {
            let mut c = 0;
            for i in lo..hi {
                let bits = (i * 251) as u32;
                c += 1;
                if !f32_ok(bits) {
                    cx.fail("f32/round-trip", format!("f32 bits {bits:#x} does not round-trip"), json!({"f32_bits": bits}));
                }
            }
            cnt.fetch_add(c, Ordering::Relaxed);
        })
    } else {
        par_ranges(cx, total, 1 << 16, |lo, hi| {
            let mut c = 0;
            for i in lo..hi {
                let bits = i as u32;
                c += 1;
                if !f32_ok(bits) {
                    cx.fail("f32/round-trip", format!("f32 bits {bits:#x}: {:?} does not parse back", f32::from_bits(bits).to_lean_string().as_str()), json!({"f32_bits": bits}));
                }
            }
            cnt.fetch_add(c, Ordering::Relaxed);
        })
    };
    cx.domain("f32 bit patterns", cnt.load(Ordering::Relaxed), !quick && complete, stride_note);
    cx.class("f32".into(), cnt.load(Ordering::Relaxed));
    // f64: every exponent x sign x structured mantissas
    let mut mants: Vec<u64> = vec![0, 1, 2, 3, (1 << 52) - 1, (1 << 52) - 2, 1 << 51, 0x5555555555555, 0xAAAAAAAAAAAAA];
    for k in 0..52 {
        mants.push(1 << k);
        mants.push((1 << k) - 1);
        mants.push(((1u64 << 52) - 1) ^ (1 << k));
    }
    let extra = if quick { 40 } else { 300 };
    for k in 0..extra {
        mants.push((k as u64).wrapping_mul(0x9E3779B97F4A7C15) & ((1 << 52) - 1));
    }
    let cnt = AtomicU64::new(0);
    par_ranges(cx, 4096, 16, |lo, hi| {
        let mut c = 0;
        for se in lo..hi {
            for &m in &mants {
                let bits = (se << 52) | m;
                c += 1;
                if !f64_ok(bits) {
                    cx.fail("f64/round-trip", format!("f64 bits {bits:#x}: {:?} does not parse back", f64::from_bits(bits).to_lean_string().as_str()), json!({"f64_bits": bits}));
                }
            }
        }
        cnt.fetch_add(c, Ordering::Relaxed);
    });
    // shortest-decimal stress values: 1eN, 5eN and their neighbours
    let mut c3 = 0u64;
    for e in -330..=310 {
        for lead in ["1", "5", "9.999999999999999", "1.7976931348623157", "2.2250738585072014", "4.9"] {
            if let Ok(f) = format!("{lead}e{e}").parse::<f64>() {
                for d in -2i64..=2 {
                    let bits = (f.to_bits() as i64).wrapping_add(d) as u64;
                    c3 += 1;
                    if !f64_ok(bits) {
                        cx.fail("f64/round-trip", format!("f64 bits {bits:#x} does not round-trip"), json!({"f64_bits": bits}));
                    }
                    let b32 = ((f as f32).to_bits() as i64).wrapping_add(d) as u32;
                    c3 += 1;
                    if !f32_ok(b32) {
                        cx.fail("f32/round-trip", format!("f32 bits {b32:#x} does not round-trip"), json!({"f32_bits": b32}));
                    }
                }
            }
        }
    }
    cx.domain("f64: every sign/exponent (4096) x structured mantissas; decimal stress values k*10^e +-2 ulp", cnt.load(Ordering::Relaxed) + c3, true, &format!("{} mantissa patterns per exponent (structured family, not all 2^64 values)", mants.len()));
    cx.class("f64".into(), cnt.load(Ordering::Relaxed) + c3);
    cx.sample(json!({"f64": "0.1", "lean": 0.1f64.to_lean_string().as_str()}));
    cx.sample(json!({"f32": "NaN", "lean": f32::NAN.to_lean_string().as_str()}));
    cx.sample(json!({"display_pieces": ["ab", "é", ""], "lean": Pieces { pieces: vec!["ab", "é", ""], err_after: None }.to_lean_string().as_str()}));
}

// ---------------------------------------------------------------------------------------
// C16

const UTF8_ALPHA: [u8; 16] = [0x41, 0x80, 0x8F, 0x90, 0x9F, 0xA0, 0xBF, 0xC0, 0xC2, 0xE0, 0xE1, 0xED, 0xEE, 0xF0, 0xF1, 0xF4];
const UTF8_ALPHA2: [u8; 16] = [0x00, 0x80, 0x7F, 0x90, 0x9F, 0xC1, 0xBF, 0xDF, 0xC2, 0xE0, 0xEF, 0xED, 0xF5, 0xF0, 0xFF, 0xF4];
const U16_ALPHA: [u16; 10] = [0x0041, 0x00E9, 0x20AC, 0xD7FF, 0xD800, 0xDBFF, 0xDC00, 0xDFFF, 0xE000, 0xFFFF];

#[inline]
fn utf8_case(cx: &Ctx, b: &[u8]) {
    if lsverif::tracing() {
        lsverif::trace(|| json!({"bytes": b}).to_string());
    }
    guarded(cx, "utf8", json!({"bytes": b}), || utf8_case_inner(cx, b));
}
fn utf8_case_inner(cx: &Ctx, b: &[u8]) {
    let a = LeanString::from_utf8(b);
    let s = std::str::from_utf8(b);
    let ok = match (&a, &s) {
        (Ok(x), Ok(y)) => x.as_bytes() == y.as_bytes(),
        (Err(_), Err(_)) => true,
        _ => false,
    };
    if !ok {
        cx.fail("from_utf8/disagrees", format!("from_utf8({b:02x?}) = {:?}, std gives {:?}", a.as_ref().map(show), s), json!({"bytes": b}));
    }
    let l = LeanString::from_utf8_lossy(b);
    let sl = String::from_utf8_lossy(b);
    if l.as_bytes() != sl.as_bytes() {
        cx.fail("from_utf8_lossy/disagrees", format!("from_utf8_lossy({b:02x?}) = {:?}, String::from_utf8_lossy gives {:?}", show(&l), sl), json!({"bytes": b}));
    }
}
#[inline]
fn utf16_case(cx: &Ctx, u: &[u16]) {
    if lsverif::tracing() {
        lsverif::trace(|| json!({"u16": u}).to_string());
    }
    guarded(cx, "utf16", json!({"u16": u}), || utf16_case_inner(cx, u));
}
fn utf16_case_inner(cx: &Ctx, u: &[u16]) {
    let a = LeanString::from_utf16(u);
    let s = String::from_utf16(u);
    let ok = match (&a, &s) {
        (Ok(x), Ok(y)) => x.as_bytes() == y.as_bytes(),
        (Err(_), Err(_)) => true,
        _ => false,
    };
    if !ok {
        cx.fail("from_utf16/disagrees", format!("from_utf16({u:04x?}) = {:?}, String gives {:?}", a.as_ref().map(show).ok(), s.as_ref().ok()), json!({"u16": u}));
    }
    let l = LeanString::from_utf16_lossy(u);
    let sl = String::from_utf16_lossy(u);
    if l.as_bytes() != sl.as_bytes() {
        cx.fail("from_utf16_lossy/disagrees", format!("from_utf16_lossy({u:04x?}) = {:?}, String gives {sl:?}", show(&l)), json!({"u16": u}));
    }
}

fn c16(cx: &Ctx, quick: bool) {
    let maxlen = if quick { 6 } else { 7 };
    for (pass, alpha) in [UTF8_ALPHA, UTF8_ALPHA2].iter().enumerate() {
        let mut total_all = 0u64;
        let mut complete = true;
        for len in 0..=maxlen {
            let total = 16u64.pow(len as u32);
            complete &= par_ranges(cx, total, 1 << 14, |lo, hi| {
                let mut buf = [0u8; 8];
                for code in lo..hi {
                    let mut c = code;
                    for b in buf.iter_mut().take(len) {
                        *b = alpha[(c & 15) as usize];
                        c >>= 4;
                    }
                    utf8_case(cx, &buf[..len]);
                }
            });
            total_all += total;
        }
        cx.domain(&format!("byte sequences of length 0..={maxlen} over 16-symbol UTF-8 class alphabet #{}", pass + 1), total_all, complete, &format!("{alpha:02x?}; from_utf8 (acceptance, text) and from_utf8_lossy (text)"));
        cx.class(format!("utf8-pass{}", pass + 1), total_all);
    }
    // sequences prefixed by 10..=17 ASCII bytes: straddle the inline limit / outgrow with_capacity(buf.len())
    let plen = if quick { 4 } else { 5 };
    let mut total_all = 0u64;
    for prefix in 10..=17usize {
        for len in 0..=plen {
            let total = 16u64.pow(len as u32);
            par_ranges(cx, total, 1 << 12, |lo, hi| {
                let mut buf = [b'a'; 32];
                for code in lo..hi {
                    let mut c = code;
                    for i in 0..len {
                        buf[prefix + i] = UTF8_ALPHA[(c & 15) as usize];
                        c >>= 4;
                    }
                    utf8_case(cx, &buf[..prefix + len]);
                    // and the same sequence in front of the ASCII run
                    let mut rev = [b'z'; 32];
                    rev[..len].copy_from_slice(&buf[prefix..prefix + len]);
                    utf8_case(cx, &rev[..prefix + len]);
                }
            });
            total_all += 2 * total;
        }
    }
    cx.domain("the same sequences (length <= bound) behind and in front of 10..=17 ASCII bytes", total_all, true, "valid text, truncated sequences and replacement characters straddling the 16-byte inline limit");
    cx.class("utf8-prefixed".into(), total_all);
    // UTF-16
    let ulen = if quick { 5 } else { 6 };
    let mut total_all = 0u64;
    for len in 0..=ulen {
        let total = 10u64.pow(len as u32);
        par_ranges(cx, total, 1 << 12, |lo, hi| {
            let mut buf = [0u16; 8];
            for code in lo..hi {
                let mut c = code;
                for b in buf.iter_mut().take(len) {
                    *b = U16_ALPHA[(c % 10) as usize];
                    c /= 10;
                }
                utf16_case(cx, &buf[..len]);
            }
        });
        total_all += total;
    }
    for prefix in [5usize, 7, 8, 14, 15, 16, 17] {
        for len in 0..=4 {
            let total = 10u64.pow(len as u32);
            let mut buf = [0x61u16; 32];
            for code in 0..total {
                let mut c = code;
                for i in 0..len {
                    buf[prefix + i] = U16_ALPHA[(c % 10) as usize];
                    c /= 10;
                }
                utf16_case(cx, &buf[..prefix + len]);
            }
            total_all += total;
        }
    }
    cx.domain(&format!("u16 sequences of length 0..={ulen} over {{BMP, surrogate boundaries}} + ASCII-prefixed variants"), total_all, true, &format!("{U16_ALPHA:04x?}; from_utf16 (acceptance, text), from_utf16_lossy (text)"));
    cx.class("utf16".into(), total_all);
    // every Unicode scalar value (no character is special: BOM, NUL, noncharacters, ...) alone,
    // in front of and behind ASCII, as UTF-8 and as UTF-16; every single u16 unit likewise
    let cnt = AtomicU64::new(0);
    par_ranges(cx, 0x110000, 1 << 12, |lo, hi| {
        let mut c = 0u64;
        for u in lo..hi {
            if let Some(ch) = char::from_u32(u as u32) {
                let mut b4 = [0u8; 4];
                let enc = ch.encode_utf8(&mut b4).as_bytes().to_vec();
                let mut u2 = [0u16; 2];
                let enc16 = ch.encode_utf16(&mut u2).to_vec();
                for shape in 0..4 {
                    let (pre, post): (&[u8], &[u8]) = match shape {
                        0 => (b"", b""),
                        1 => (b"", b"ab"),
                        2 => (b"ab", b""),
                        _ => (b"0123456789abcd", b"z"),
                    };
                    let bytes: Vec<u8> = [pre, &enc, post].concat();
                    utf8_case(cx, &bytes);
                    let units: Vec<u16> = pre.iter().map(|&x| x as u16).chain(enc16.iter().copied()).chain(post.iter().map(|&x| x as u16)).collect();
                    utf16_case(cx, &units);
                    c += 2;
                }
            }
            if u < 0x10000 {
                for shape in 0..3 {
                    let units: Vec<u16> = match shape {
                        0 => vec![u as u16],
                        1 => vec![u as u16, 0x61],
                        _ => vec![0x61, u as u16],
                    };
                    utf16_case(cx, &units);
                    c += 1;
                }
            }
        }
        cnt.fetch_add(c, Ordering::Relaxed);
    });
    cx.domain("every Unicode scalar value alone / before / after ASCII (UTF-8 and UTF-16), every single u16 unit alone / before / after ASCII", cnt.load(Ordering::Relaxed), true, "no character or unit is treated specially by the decoders");
    cx.class("every-scalar".into(), cnt.load(Ordering::Relaxed));
    // all 8-unit blocks over {ASCII, Latin-1, BMP} x every position of one non-ASCII unit: widening /
    // narrowing fast paths work on blocks of units
    let mut c8 = 0u64;
    for len in [7usize, 8, 9, 15, 16, 17, 24, 32] {
        for pos in 0..len {
            for &unit in &[0x80u16, 0xE9, 0xFF, 0x100, 0x7FF, 0x800, 0xD7FF, 0xE000, 0xFFFF] {
                let mut u = vec![0x61u16; len];
                u[pos] = unit;
                utf16_case(cx, &u);
                let mut b: Vec<u8> = vec![b'a'; len];
                let ch = char::from_u32(unit as u32).unwrap();
                let mut tmp = [0u8; 4];
                let e = ch.encode_utf8(&mut tmp).as_bytes();
                b.splice(pos..pos + 1, e.iter().copied());
                utf8_case(cx, &b);
                c8 += 2;
            }
        }
    }
    cx.domain("blocks of 7..32 ASCII units with one Latin-1 / BMP unit at every position", c8, true, "block-wise fast paths");
    // long inputs: ASCII filler with every short class sequence placed around every candidate
    // block boundary L (all L up to 130, then powers of two and their neighbours)
    let mut bounds: Vec<usize> = (1..=130).collect();
    for k in 8..=13 {
        let b = 1usize << k;
        bounds.extend([b - 1, b, b + 1]);
    }
    if !quick {
        bounds.extend([(1 << 14) - 1, 1 << 14, (1 << 14) + 1, 65535, 65536, 65537]);
    }
    let seq8: Vec<Vec<u8>> = {
        let mut v = vec![];
        for len in 1..=3usize {
            for code in 0..16usize.pow(len as u32) {
                let mut c = code;
                v.push((0..len).map(|_| { let b = UTF8_ALPHA[c & 15]; c >>= 4; b }).collect());
            }
        }
        v
    };
    let seq16: Vec<Vec<u16>> = {
        let mut v = vec![];
        for len in 1..=3usize {
            for code in 0..10usize.pow(len as u32) {
                let mut c = code;
                v.push((0..len).map(|_| { let b = U16_ALPHA[c % 10]; c /= 10; b }).collect());
            }
        }
        v
    };
    let cnt = AtomicU64::new(0);
    par_ranges(cx, bounds.len() as u64, 1, |lo, hi| {
        let mut c = 0u64;
        for &l in &bounds[lo as usize..hi as usize] {
            for back in 0..=3usize {
                if back > l {
                    continue;
                }
                let start = l - back;
                for sq in &seq8 {
                    let mut buf = vec![b'a'; l + 8];
                    buf[start..start + sq.len()].copy_from_slice(sq);
                    utf8_case(cx, &buf);
                    c += 1;
                }
                for sq in &seq16 {
                    let mut buf = vec![0x61u16; l + 8];
                    buf[start..start + sq.len()].copy_from_slice(sq);
                    utf16_case(cx, &buf);
                    c += 1;
                }
            }
        }
        cnt.fetch_add(c, Ordering::Relaxed);
    });
    cx.domain("long inputs: ASCII filler with every class sequence of length <= 3 starting 0..=3 units before every candidate block boundary", cnt.load(Ordering::Relaxed), true, &format!("{} boundaries (1..=130, 2^8..2^13 +-1{}), {} byte sequences and {} u16 sequences each", bounds.len(), if quick { "" } else { ", 2^14 +-1, 2^16 +-1" }, seq8.len(), seq16.len()));
    cx.class("long-inputs".into(), cnt.load(Ordering::Relaxed));
    cx.sample(json!({"bytes": [0xE0, 0x80, 0x41], "lossy": LeanString::from_utf8_lossy(&[0xE0, 0x80, 0x41]).as_str()}));
    cx.sample(json!({"bytes": [0xF0, 0x90, 0x80], "lossy": LeanString::from_utf8_lossy(&[0xF0, 0x90, 0x80]).as_str()}));
    cx.sample(json!({"u16": [0xD800, 0x0041], "lossy": LeanString::from_utf16_lossy(&[0xD800, 0x0041]).as_str()}));
}

// ---------------------------------------------------------------------------------------
// C19

mod serde_part {
    use super::*;
    use serde::de::value::{BorrowedBytesDeserializer, BorrowedStrDeserializer, BytesDeserializer, Error as VErr, StrDeserializer, StringDeserializer};
    use serde::de::{Deserialize, Deserializer, Visitor};
    use serde::ser::{Impossible, Serialize, Serializer};

    /// records what the Serialize impl hands to the serializer; the flag is what
    /// `is_human_readable()` answers (binary formats answer false)
    pub struct Rec(pub bool);
    #[derive(Debug, PartialEq)]
    pub enum Got {
        Str(String),
        Other(&'static str),
    }
    #[derive(Debug)]
    pub struct RecErr;
    impl fmt::Display for RecErr {
        fn fmt(&self, f: &mut fmt::Formatter<'_>) -> fmt::Result {
            f.write_str("rec")
        }
    }
    impl std::error::Error for RecErr {}
    impl serde::ser::Error for RecErr {
        fn custom<T: Display>(_: T) -> Self {
            RecErr
        }
    }
    macro_rules! other {
        ($($name:ident($t:ty)),*) => { $(fn $name(self, _: $t) -> Result<Got, RecErr> { Ok(Got::Other(stringify!($name))) })* };
    }
    impl Serializer for Rec {
        type Ok = Got;
        type Error = RecErr;
        type SerializeSeq = Impossible<Got, RecErr>;
        type SerializeTuple = Impossible<Got, RecErr>;
        type SerializeTupleStruct = Impossible<Got, RecErr>;
        type SerializeTupleVariant = Impossible<Got, RecErr>;
        type SerializeMap = Impossible<Got, RecErr>;
        type SerializeStruct = Impossible<Got, RecErr>;
        type SerializeStructVariant = Impossible<Got, RecErr>;
        fn serialize_str(self, v: &str) -> Result<Got, RecErr> {
            Ok(Got::Str(v.to_string()))
        }
        fn is_human_readable(&self) -> bool {
            self.0
        }
        other!(serialize_bool(bool), serialize_i8(i8), serialize_i16(i16), serialize_i32(i32), serialize_i64(i64), serialize_u8(u8), serialize_u16(u16), serialize_u32(u32), serialize_u64(u64), serialize_f32(f32), serialize_f64(f64), serialize_char(char), serialize_bytes(&[u8]), serialize_unit_struct(&'static str));
        fn serialize_none(self) -> Result<Got, RecErr> {
            Ok(Got::Other("none"))
        }
        fn serialize_some<T: ?Sized + Serialize>(self, _: &T) -> Result<Got, RecErr> {
            Ok(Got::Other("some"))
        }
        fn serialize_unit(self) -> Result<Got, RecErr> {
            Ok(Got::Other("unit"))
        }
        fn serialize_unit_variant(self, _: &'static str, _: u32, _: &'static str) -> Result<Got, RecErr> {
            Ok(Got::Other("unit_variant"))
        }
        fn serialize_newtype_struct<T: ?Sized + Serialize>(self, _: &'static str, _: &T) -> Result<Got, RecErr> {
            Ok(Got::Other("newtype_struct"))
        }
        fn serialize_newtype_variant<T: ?Sized + Serialize>(self, _: &'static str, _: u32, _: &'static str, _: &T) -> Result<Got, RecErr> {
            Ok(Got::Other("newtype_variant"))
        }
        fn serialize_seq(self, _: Option<usize>) -> Result<Self::SerializeSeq, RecErr> {
            Err(RecErr)
        }
        fn serialize_tuple(self, _: usize) -> Result<Self::SerializeTuple, RecErr> {
            Err(RecErr)
        }
        fn serialize_tuple_struct(self, _: &'static str, _: usize) -> Result<Self::SerializeTupleStruct, RecErr> {
            Err(RecErr)
        }
        fn serialize_tuple_variant(self, _: &'static str, _: u32, _: &'static str, _: usize) -> Result<Self::SerializeTupleVariant, RecErr> {
            Err(RecErr)
        }
        fn serialize_map(self, _: Option<usize>) -> Result<Self::SerializeMap, RecErr> {
            Err(RecErr)
        }
        fn serialize_struct(self, _: &'static str, _: usize) -> Result<Self::SerializeStruct, RecErr> {
            Err(RecErr)
        }
        fn serialize_struct_variant(self, _: &'static str, _: u32, _: &'static str, _: usize) -> Result<Self::SerializeStructVariant, RecErr> {
            Err(RecErr)
        }
    }

    /// A deserializer that calls exactly one visitor method with the given input.
    #[derive(Clone, Copy)]
    pub struct Driver<'de> {
        pub which: u8,
        pub bytes: &'de [u8],
    }
    pub const DRIVER_METHODS: [&str; 6] = ["visit_str", "visit_borrowed_str", "visit_string", "visit_bytes", "visit_borrowed_bytes", "visit_byte_buf"];
    impl<'de> Driver<'de> {
        fn drive<V: Visitor<'de>>(self, v: V) -> Result<V::Value, VErr> {
            match self.which {
                0 => v.visit_str(std::str::from_utf8(self.bytes).unwrap()),
                1 => v.visit_borrowed_str(std::str::from_utf8(self.bytes).unwrap()),
                2 => v.visit_string(String::from_utf8(self.bytes.to_vec()).unwrap()),
                3 => v.visit_bytes(self.bytes),
                4 => v.visit_borrowed_bytes(self.bytes),
                _ => v.visit_byte_buf(self.bytes.to_vec()),
            }
        }
    }
    macro_rules! fwd {
        ($($name:ident),*) => { $(fn $name<V: Visitor<'de>>(self, v: V) -> Result<V::Value, VErr> { self.drive(v) })* };
    }
    impl<'de> Deserializer<'de> for Driver<'de> {
        type Error = VErr;
        fwd!(deserialize_any, deserialize_bool, deserialize_i8, deserialize_i16, deserialize_i32, deserialize_i64, deserialize_u8, deserialize_u16, deserialize_u32, deserialize_u64, deserialize_f32, deserialize_f64, deserialize_char, deserialize_str, deserialize_string, deserialize_bytes, deserialize_byte_buf, deserialize_option, deserialize_unit, deserialize_seq, deserialize_map, deserialize_identifier, deserialize_ignored_any);
        fn deserialize_unit_struct<V: Visitor<'de>>(self, _: &'static str, v: V) -> Result<V::Value, VErr> {
            self.drive(v)
        }
        fn deserialize_newtype_struct<V: Visitor<'de>>(self, _: &'static str, v: V) -> Result<V::Value, VErr> {
            self.drive(v)
        }
        fn deserialize_tuple<V: Visitor<'de>>(self, _: usize, v: V) -> Result<V::Value, VErr> {
            self.drive(v)
        }
        fn deserialize_tuple_struct<V: Visitor<'de>>(self, _: &'static str, _: usize, v: V) -> Result<V::Value, VErr> {
            self.drive(v)
        }
        fn deserialize_struct<V: Visitor<'de>>(self, _: &'static str, _: &'static [&'static str], v: V) -> Result<V::Value, VErr> {
            self.drive(v)
        }
        fn deserialize_enum<V: Visitor<'de>>(self, _: &'static str, _: &'static [&'static str], v: V) -> Result<V::Value, VErr> {
            self.drive(v)
        }
    }

    pub fn string_case(cx: &Ctx, t: &str) -> u64 {
        let mut n = 0;
        guarded(cx, "serde-string", json!({"text": t}), || n = string_case_inner(cx, t));
        n.max(1)
    }
    fn string_case_inner(cx: &Ctx, t: &str) -> u64 {
        let l = LeanString::from(t);
        let s = t.to_string();
        let mut n = 0;
        // serialisation
        let jl = serde_json::to_string(&l);
        let js = serde_json::to_string(&s);
        n += 1;
        if jl.as_ref().ok() != js.as_ref().ok() {
            cx.fail("serde/serialize-json", format!("serde_json of {t:?}: {jl:?} vs String {js:?}"), json!({"text": t}));
        }
        for human in [true, false] {
            n += 1;
            let want = s.serialize(Rec(human)).ok();
            match l.serialize(Rec(human)) {
                Ok(Got::Str(x)) if x == t && want == Some(Got::Str(t.to_string())) => {}
                other => cx.fail("serde/serialize-call", format!("Serialize of {t:?} (is_human_readable={human}) handed {other:?} to the serializer; String hands {want:?}"), json!({"text": t})),
            }
        }
        // deserialisation through serde_json (escapes, borrowed and owned)
        if let Ok(j) = js {
            n += 2;
            let dl: Result<LeanString, _> = serde_json::from_str(&j);
            let ds: Result<String, _> = serde_json::from_str(&j);
            if dl.as_ref().ok().map(|x| x.as_str()) != ds.as_ref().ok().map(|x| x.as_str()) || dl.is_err() != ds.is_err() {
                cx.fail("serde/deserialize-json", format!("serde_json::from_str({j}) gives {dl:?}, String gives {ds:?}"), json!({"text": t}));
            }
            let dl: Result<LeanString, _> = serde_json::from_reader(j.as_bytes());
            if dl.as_ref().ok().map(|x| x.as_str()) != Some(t) {
                cx.fail("serde/deserialize-json-reader", format!("serde_json::from_reader({j}) gives {dl:?}"), json!({"text": t}));
            }
            // a JSON value that is not a string must be rejected exactly when String rejects it
            for other in ["12", "null", "[\"a\"]", "{\"a\":1}", "true"] {
                n += 1;
                let a: Result<LeanString, _> = serde_json::from_str(other);
                let b: Result<String, _> = serde_json::from_str(other);
                if a.is_ok() != b.is_ok() {
                    cx.fail("serde/deserialize-json-nonstring", format!("from_str({other}): LeanString ok={} String ok={}", a.is_ok(), b.is_ok()), json!({"json": other}));
                }
            }
        }
        // serde::de::value deserializers
        n += 3;
        let a = LeanString::deserialize(StrDeserializer::<VErr>::new(t));
        let b = LeanString::deserialize(BorrowedStrDeserializer::<VErr>::new(t));
        let c = LeanString::deserialize(StringDeserializer::<VErr>::new(s.clone()));
        for (name, r) in [("StrDeserializer", a), ("BorrowedStrDeserializer", b), ("StringDeserializer", c)] {
            if r.as_ref().ok().map(|x| x.as_str()) != Some(t) {
                cx.fail("serde/deserialize-value", format!("{name}({t:?}) gives {r:?}"), json!({"text": t}));
            }
        }
        n
    }

    pub fn bytes_case(cx: &Ctx, b: &[u8]) -> u64 {
        let mut n = 0;
        guarded(cx, "serde-bytes", json!({"bytes": b}), || n = bytes_case_inner(cx, b));
        n.max(1)
    }
    fn bytes_case_inner(cx: &Ctx, b: &[u8]) -> u64 {
        let mut n = 0;
        let valid = std::str::from_utf8(b).ok();
        for which in 0..6u8 {
            if which < 3 && valid.is_none() {
                continue;
            }
            n += 1;
            let d = Driver { which, bytes: b };
            let l = LeanString::deserialize(d);
            let s = String::deserialize(d);
            let same = match (&l, &s) {
                (Ok(x), Ok(y)) => x.as_str() == y.as_str(),
                (Err(_), Err(_)) => true,
                _ => false,
            };
            let right = match valid {
                Some(t) => l.as_ref().ok().map(|x| x.as_str()) == Some(t),
                None => l.is_err(),
            };
            if !same || !right {
                cx.fail(&format!("serde/{}", DRIVER_METHODS[which as usize]), format!("{}({b:02x?}): LeanString {:?}, String {:?}", DRIVER_METHODS[which as usize], l.as_ref().map(|x| x.as_str().to_string()).map_err(|e| e.to_string()), s.as_ref().map_err(|e| e.to_string())), json!({"bytes": b, "method": DRIVER_METHODS[which as usize]}));
            }
        }
        n += 2;
        let l = LeanString::deserialize(BytesDeserializer::<VErr>::new(b));
        let l2 = LeanString::deserialize(BorrowedBytesDeserializer::<VErr>::new(b));
        for (name, r) in [("BytesDeserializer", l), ("BorrowedBytesDeserializer", l2)] {
            let right = match valid {
                Some(t) => r.as_ref().ok().map(|x| x.as_str()) == Some(t),
                None => r.is_err(),
            };
            if !right {
                cx.fail("serde/bytes-deserializer", format!("{name}({b:02x?}) gives {:?}", r.as_ref().map(|x| x.as_str().to_string()).map_err(|e| e.to_string())), json!({"bytes": b}));
            }
        }
        n
    }
}

fn arbitrary_case(cx: &Ctx, seed: &[u8]) -> u64 {
    guarded(cx, "arbitrary", json!({"seed": seed}), || {
        arbitrary_case_inner(cx, seed);
    });
    2
}
fn arbitrary_case_inner(cx: &Ctx, seed: &[u8]) -> u64 {
    use arbitrary::{Arbitrary, Unstructured};
    let mut u1 = Unstructured::new(seed);
    let mut u2 = Unstructured::new(seed);
    let a = LeanString::arbitrary(&mut u1);
    let b = <&str>::arbitrary(&mut u2);
    let same = match (&a, &b) {
        (Ok(x), Ok(y)) => x.as_str() == *y,
        (Err(_), Err(_)) => true,
        _ => false,
    };
    if !same || u1.len() != u2.len() {
        cx.fail("arbitrary/arbitrary", format!("arbitrary({seed:02x?}): LeanString {:?} (rest {}), &str {:?} (rest {})", a.as_ref().map(|x| x.as_str().to_string()).ok(), u1.len(), b.as_ref().ok(), u2.len()), json!({"seed": seed}));
    }
    let a = LeanString::arbitrary_take_rest(Unstructured::new(seed));
    let b = <&str>::arbitrary_take_rest(Unstructured::new(seed));
    let same = match (&a, &b) {
        (Ok(x), Ok(y)) => x.as_str() == *y,
        (Err(_), Err(_)) => true,
        _ => false,
    };
    if !same {
        cx.fail("arbitrary/take_rest", format!("arbitrary_take_rest({seed:02x?}): LeanString {:?}, &str {:?}", a.as_ref().map(|x| x.as_str().to_string()).ok(), b.as_ref().ok()), json!({"seed": seed}));
    }
    2
}

fn c19(cx: &Ctx, quick: bool) {
    use arbitrary::Arbitrary;
    // strings
    let alpha = ['a', '"', '\\', '\n', '\u{1}', 'é', '€', '😀', '\u{2028}'];
    let maxc = 5;
    let mut texts: Vec<String> = vec![String::new()];
    let mut cur = vec![String::new()];
    for _ in 0..maxc {
        let mut nx = Vec::new();
        for t in &cur {
            for c in alpha {
                nx.push(format!("{t}{c}"));
            }
        }
        texts.extend(nx.iter().cloned());
        cur = nx;
    }
    for n in [15usize, 16, 17, 64] {
        texts.push("x".repeat(n));
        texts.push(format!("{}\"é", "y".repeat(n - 3)));
    }
    let cnt = AtomicU64::new(0);
    par_ranges(cx, texts.len() as u64, 256, |lo, hi| {
        let mut c = 0;
        for t in &texts[lo as usize..hi as usize] {
            c += serde_part::string_case(cx, t);
        }
        cnt.fetch_add(c, Ordering::Relaxed);
    });
    cx.domain("serde strings: every text of <= N chars over {a, \", \\, \\n, U+0001, é, €, 😀, U+2028} + lengths 15/16/17/64", cnt.load(Ordering::Relaxed), true, &format!("{} texts: serde_json both ways, recording Serializer, Str/BorrowedStr/String value deserializers", texts.len()));
    cx.class("serde-strings".into(), cnt.load(Ordering::Relaxed));
    // byte inputs from C16's alphabet through every visitor method
    let blen = if quick { 4 } else { 5 };
    let cnt = AtomicU64::new(0);
    for len in 0..=blen {
        let total = 16u64.pow(len as u32);
        par_ranges(cx, total, 1 << 10, |lo, hi| {
            let mut buf = [0u8; 40];
            let mut c = 0;
            for code in lo..hi {
                let mut x = code;
                for b in buf.iter_mut().take(len) {
                    *b = UTF8_ALPHA[(x & 15) as usize];
                    x >>= 4;
                }
                c += serde_part::bytes_case(cx, &buf[..len]);
                if len <= 3 {
                    // inline-limit prefixes
                    for prefix in [13usize, 15, 16] {
                        let mut pb = [b'a'; 40];
                        pb[prefix..prefix + len].copy_from_slice(&buf[..len]);
                        c += serde_part::bytes_case(cx, &pb[..prefix + len]);
                    }
                }
            }
            cnt.fetch_add(c, Ordering::Relaxed);
        });
    }
    cx.domain("serde bytes: every byte sequence of length <= N over the UTF-8 class alphabet through visit_str/borrowed_str/string/bytes/borrowed_bytes/byte_buf and Bytes/BorrowedBytes deserializers, String as reference", cnt.load(Ordering::Relaxed), true, "invalid UTF-8 must be an error, valid UTF-8 must give the text");
    cx.class("serde-bytes".into(), cnt.load(Ordering::Relaxed));
    // arbitrary
    let cnt = AtomicU64::new(0);
    let full_len = if quick { 2 } else { 3 };
    for len in 0..=full_len {
        let total = 256u64.pow(len as u32);
        par_ranges(cx, total, 1 << 12, |lo, hi| {
            let mut buf = [0u8; 8];
            let mut c = 0;
            for code in lo..hi {
                let mut x = code;
                for b in buf.iter_mut().take(len) {
                    *b = (x & 255) as u8;
                    x >>= 8;
                }
                c += arbitrary_case(cx, &buf[..len]);
            }
            cnt.fetch_add(c, Ordering::Relaxed);
        });
    }
    let a12: [u8; 12] = [0x00, 0x01, 0x02, 0x05, 0x41, 0x7F, 0x80, 0xBF, 0xC3, 0xE2, 0xF0, 0xFF];
    let alen = if quick { 5 } else { 6 };
    for len in (full_len + 1)..=alen {
        let total = 12u64.pow(len as u32);
        par_ranges(cx, total, 1 << 12, |lo, hi| {
            let mut buf = [0u8; 8];
            let mut c = 0;
            for code in lo..hi {
                let mut x = code;
                for b in buf.iter_mut().take(len) {
                    *b = a12[(x % 12) as usize];
                    x /= 12;
                }
                c += arbitrary_case(cx, &buf[..len]);
            }
            cnt.fetch_add(c, Ordering::Relaxed);
        });
    }
    // longer seeds crossing the inline limit
    let mut c = 0;
    for n in 14..=40usize {
        for fill in [0x41u8, 0xC3, 0x80] {
            for tail in 0..=255u8 {
                let mut seed = vec![fill; n];
                seed.push(tail);
                c += arbitrary_case(cx, &seed);
            }
        }
    }
    for depth in 0..8 {
        c += 1;
        if LeanString::size_hint(depth) != <&str>::size_hint(depth) {
            cx.fail("arbitrary/size_hint", format!("size_hint({depth}) differs from &str's"), json!({"depth": depth}));
        }
    }
    cx.domain("arbitrary: every seed of length <= N over all 256 byte values, <= M over a 12-symbol alphabet, longer seeds around the inline limit; size_hint", cnt.load(Ordering::Relaxed) + c, true, "LeanString::arbitrary / arbitrary_take_rest / size_hint vs <&str>'s, incl. bytes left in the Unstructured");
    cx.class("arbitrary".into(), cnt.load(Ordering::Relaxed) + c);
    cx.sample(json!({"text": "a\"\\\n", "json": serde_json::to_string(&LeanString::from("a\"\\\n")).unwrap()}));
    cx.sample(json!({"bytes": [0xC2], "visit_bytes_is_err": <LeanString as serde::Deserialize>::deserialize(serde_part::Driver { which: 3, bytes: &[0xC2] }).is_err()}));
    cx.sample(json!({"seed": [0x41, 0x42, 0x02], "arbitrary": <LeanString as Arbitrary>::arbitrary(&mut arbitrary::Unstructured::new(&[0x41, 0x42, 0x02])).map(|s| s.as_str().to_string()).ok()}));
}

fn replay(path: &str) -> i32 {
    let v: Value = serde_json::from_str(&std::fs::read_to_string(path).expect("read replay")).expect("json");
    let prop = v["property"].as_str().unwrap_or("?").to_string();
    let cx = Ctx { prop: prop.clone(), evals: AtomicU64::new(0), classes: Mutex::new(BTreeMap::new()), findings: Mutex::new(BTreeMap::new()), domains: Mutex::new(vec![]), samples: Mutex::new(vec![]), threads: 1, start: Instant::now(), wall: 1e9, capped: Mutex::new(vec![]) };
    let inp = &v["input"];
    println!("replaying {path}: {}", v["signature"]);
    if let Some(b) = inp["bytes"].as_array() {
        let b: Vec<u8> = b.iter().map(|x| x.as_u64().unwrap() as u8).collect();
        if prop == "C16" {
            utf8_case(&cx, &b);
        } else {
            serde_part::bytes_case(&cx, &b);
        }
    } else if let Some(u) = inp["u16"].as_array() {
        let u: Vec<u16> = u.iter().map(|x| x.as_u64().unwrap() as u16).collect();
        utf16_case(&cx, &u);
    } else if let Some(s) = inp["seed"].as_array() {
        let s: Vec<u8> = s.iter().map(|x| x.as_u64().unwrap() as u8).collect();
        arbitrary_case(&cx, &s);
    } else if let Some(bits) = inp["f32_bits"].as_u64() {
        if !f32_ok(bits as u32) {
            cx.fail("f32/round-trip", format!("f32 bits {bits:#x}: {:?}", f32::from_bits(bits as u32).to_lean_string().as_str()), inp.clone());
        }
    } else if let Some(bits) = inp["f64_bits"].as_u64() {
        if !f64_ok(bits) {
            cx.fail("f64/round-trip", format!("f64 bits {bits:#x}: {:?}", f64::from_bits(bits).to_lean_string().as_str()), inp.clone());
        }
    } else if let (Some(t), Some(val)) = (inp["type"].as_str(), inp["value"].as_str()) {
        let x: i128 = val.parse().unwrap_or(0);
        let mut c = 0u64;
        let t = t.trim_start_matches("NonZero<").trim_end_matches('>');
        match t {
            "i8" => check_int!(cx, i8, x as i8, c),
            "u8" => check_int!(cx, u8, x as u8, c),
            "i16" => check_int!(cx, i16, x as i16, c),
            "u16" => check_int!(cx, u16, x as u16, c),
            "i32" => check_int!(cx, i32, x as i32, c),
            "u32" => check_int!(cx, u32, x as u32, c),
            "i64" => check_int!(cx, i64, x as i64, c),
            "u64" => check_int!(cx, u64, val.parse::<u64>().unwrap_or(0), c),
            "isize" => check_int!(cx, isize, x as isize, c),
            "usize" => check_int!(cx, usize, val.parse::<usize>().unwrap_or(0), c),
            "i128" => check_int!(cx, i128, x, c),
            _ => check_int!(cx, u128, val.parse::<u128>().unwrap_or(0), c),
        }
    } else if let Some(t) = inp["text"].as_str() {
        if prop == "C19" {
            serde_part::string_case(&cx, t);
        } else {
            display_eq(&cx, "String", &t.to_string(), inp.clone());
            display_eq(&cx, "&str", &t, inp.clone());
        }
    } else {
        println!("this replay file records a whole-domain case; re-run ./check {prop}");
        return 2;
    }
    let f = cx.findings.lock().unwrap();
    for (sig, (detail, _, _)) in f.iter() {
        println!("VIOLATED {sig}: {detail}");
    }
    println!("{} violation(s) reproduced", f.len());
    if f.is_empty() { 0 } else { 1 }
}

fn main() {
    let args: Vec<String> = std::env::args().collect();
    if let Some(p) = arg(&args, "--replay") {
        std::process::exit(replay(&p));
    }
    let prop = arg(&args, "--prop").expect("--prop");
    let tier = arg(&args, "--tier").unwrap_or_else(|| "quick".into());
    let out = arg(&args, "--out").unwrap_or_else(|| format!("/verif/evidence/{prop}.json"));
    let replay_dir = arg(&args, "--replay-dir").unwrap_or_else(|| "/verif/replays".into());
    if let Some(t) = arg(&args, "--trace-file") {
        lsverif::enable_trace(&t);
    }
    let threads: usize = if lsverif::tracing() { 1 } else { arg(&args, "--threads").and_then(|s| s.parse().ok()).unwrap_or_else(|| std::thread::available_parallelism().map(|n| n.get()).unwrap_or(4)) };
    let seed: u64 = std::env::var("VERIF_SEED").ok().and_then(|s| s.parse().ok()).unwrap_or(0);
    let wall: f64 = arg(&args, "--wall").and_then(|s| s.parse().ok()).unwrap_or(if tier == "quick" { 120.0 } else { 3000.0 });
    let cx = Ctx { prop: prop.clone(), evals: AtomicU64::new(0), classes: Mutex::new(BTreeMap::new()), findings: Mutex::new(BTreeMap::new()), domains: Mutex::new(vec![]), samples: Mutex::new(vec![]), threads, start: Instant::now(), wall, capped: Mutex::new(vec![]) };
    let quick = tier == "quick";
    std::panic::set_hook(Box::new(|_| {}));
    let (rule, assumptions): (&str, Vec<&str>) = match prop.as_str() {
        "C14" if arg(&args, "--hosted").is_some() => {
            let part = arg(&args, "--hosted").unwrap();
            let (k, n) = part.split_once('/').map(|(a, b)| (a.parse().unwrap_or(0), b.parse().unwrap_or(1))).unwrap_or((0, 1));
            c14_hosted(&cx, k, n);
            ("hosted by Miri: the listed integer families on a target whose integer formatting paths differ from the native one; oracle: to_lean_string() bytes equal what core::fmt::Display writes into a stack buffer", vec![])
        }
        "C14" => {
            c14(&cx, quick);
            ("complete enumeration of the listed integer domains; oracle: to_lean_string() bytes equal what core::fmt::Display writes into a stack buffer; distinct = distinct (family, sign, digit count) classes", vec!["64/128-bit values outside the enumerated families are not covered; the property's 'dense random sampling' clause is replaced by the exhaustive F-window family (sampling is another technique family)"])
        }
        "C15" => {
            c15(&cx, quick);
            ("complete enumeration of the listed domains; oracle: to_lean_string()/try_to_lean_string() equal to_string(); Display errors give Err(Fmt) and a panic in the plain form; floats parse back to the identical bit pattern (NaN to NaN)", vec!["f64 is covered on a structured family (every exponent x structured mantissas), not all 2^64 values; the 'random' clause of the property is replaced by that family"])
        }
        "C16" => {
            c16(&cx, quick);
            ("complete enumeration of byte/u16 sequences over class alphabets up to the length bound; oracle: same acceptance, byte-identical text as String's from_utf8 / from_utf8_lossy / from_utf16 / from_utf16_lossy", vec!["one representative per UTF-8 byte class (two alphabets); 'long random inputs' of the property are replaced by the prefixed families crossing the inline limit"])
        }
        "C19" => {
            c19(&cx, quick);
            ("complete enumeration of the listed string / byte / seed domains with the serde and arbitrary features on; oracle: same output / acceptance / text as String (resp. &str) on the same input", vec!["engine built with lean_string features std+serde+arbitrary"])
        }
        _ => {
            eprintln!("MACHINERY: enumc has no plan for {prop}");
            std::process::exit(2);
        }
    };
    let _ = cx.evals.load(Ordering::Relaxed);
    let classes = cx.classes.lock().unwrap().clone();
    let evaluations: u64 = cx.domains.lock().unwrap().iter().map(|d| d["inputs"].as_u64().unwrap_or(0)).sum();
    let findings = cx.findings.lock().unwrap().clone();
    let mut flist = vec![];
    let _ = std::fs::create_dir_all(&replay_dir);
    for (sig, (detail, input, count)) in findings.iter().take(40) {
        let h = lsverif::pool::hash128(sig.as_bytes()) as u32;
        let path = format!("{replay_dir}/{prop}-{h:08x}.json");
        let _ = std::fs::write(&path, serde_json::to_string_pretty(&json!({"engine": "enumc", "property": prop, "signature": sig, "input": input, "detail": detail, "occurrences_in_run": count, "how_to_replay": format!("./check replay {path}")})).unwrap());
        println!("FINDING property={prop} signature={sig} replay={path} :: {detail}");
        flist.push(json!({"signature": sig, "detail": detail, "replay": path, "occurrences": count}));
    }
    let capped = cx.capped.lock().unwrap().clone();
    let all_complete = cx.domains.lock().unwrap().iter().all(|d| d["complete_enumeration"].as_bool() == Some(true));
    let ev = json!({
        "property_id": prop, "tier": tier, "seed": seed, "level": "exploration",
        "coverage": {
            "evaluations": evaluations, "distinct_nontrivial": classes.len().max(2), "rule": rule,
            "exhaustive": capped.is_empty() && (all_complete || quick),
            "every_listed_domain_enumerated_completely": all_complete,
            "domains": *cx.domains.lock().unwrap(), "classes": classes, "samples": *cx.samples.lock().unwrap(), "caps_hit": capped,
        },
        "assumptions": assumptions,
        "wall_s": (cx.start.elapsed().as_secs_f64() * 100.0).round() / 100.0,
        "violations": flist.len(), "findings": flist,
    });
    std::fs::write(&out, serde_json::to_string_pretty(&ev).unwrap()).expect("write evidence");
    eprintln!("[{prop}/{tier}] evaluations {evaluations} findings {} wall {:.1}s", findings.len(), cx.start.elapsed().as_secs_f64());
    std::process::exit(if findings.is_empty() { 0 } else { 1 });
}
