fn main() {}
