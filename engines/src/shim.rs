//! Shadow heap: the allocator the crate sees through the `verif-hooks` table.
//!
//! One instance per OS thread (thread-local). Only the crate's own requests arrive here; the
//! harness itself uses the system allocator. Properties of the shim (DESIGN §4.2):
//! * every block sits between two guard zones filled with 0xCB, fresh memory is 0xA5;
//! * an address is never reused inside one execution (bump arena, reset between executions);
//! * `realloc` always moves; freed blocks are filled with 0xDD and stay quarantined;
//! * `dealloc`/`realloc` must repeat the layout of the allocation exactly;
//! * any note outside a live block (use after free, out of bounds) is recorded;
//! * a fault plan refuses chosen requests (returns null, old block intact); requests above
//!   the giant threshold are always refused without touching the OS.
use lean_string::verif_hooks::{self, Access, HookTable};
use std::alloc::Layout;
use std::cell::UnsafeCell;

pub const GUARD: usize = 128;
pub const FILL_FRESH: u8 = 0xA5;
pub const FILL_GUARD: u8 = 0xCB;
pub const FILL_FREED: u8 = 0xDD;
const ARENA: usize = 1 << 20;

#[derive(Clone, Debug)]
pub struct Block {
    pub base: usize,
    pub size: usize,
    pub align: usize,
    pub live: bool,
    /// Some(raw pointer, raw size) when the block was taken from the system allocator
    /// because it did not fit the arena.
    big: Option<(usize, usize)>,
    /// the block is a page-guarded mapping of its own
    mapped: bool,
}

#[derive(Clone, Copy, Debug, Default, PartialEq, Eq)]
pub struct Counters {
    /// alloc + realloc requests received (refused ones included)
    pub requests: u64,
    pub allocs: u64,
    pub reallocs: u64,
    pub frees: u64,
    pub refused: u64,
    pub notes: u64,
}

pub struct Shim {
    arena: *mut u8,
    bump: usize,
    pub blocks: Vec<Block>,
    pub errors: Vec<String>,
    pub c: Counters,
    /// request numbers (1-based, counted from `fault_base`) to refuse
    pub fail: Vec<u64>,
    pub fault_base: u64,
    pub giant: usize,
    /// sizes of the successful alloc/realloc requests since the last `mark()`
    pub sizes: Vec<usize>,
    /// optional observer called on every note: (access, block index or usize::MAX, site)
    pub trace: bool,
    pub trace_log: Vec<String>,
    /// `LSVERIF_SHIM=system`: every block is an exact allocation of the system allocator and is
    /// really freed on release (no arena, guards or quarantine). Used when the engine itself runs
    /// under Miri, which then sees the bounds and lifetime of every block.
    pub system: bool,
    /// `LSVERIF_SHIM=pageguard`: every block is its own mapping whose end (rounded up to the
    /// alignment) touches an inaccessible page, and a released block becomes inaccessible as a
    /// whole. An out-of-bounds or dangling *read* - which leaves no trace the shadow heap could
    /// audit - then kills the process, and crash-trace mode pins it on the case.
    pub pageguard: bool,
    pub pageguard_fallbacks: u64,
}

mod sys {
    unsafe extern "C" {
        pub fn mmap(addr: *mut u8, len: usize, prot: i32, flags: i32, fd: i32, off: i64) -> *mut u8;
        pub fn mprotect(addr: *mut u8, len: usize, prot: i32) -> i32;
        pub fn munmap(addr: *mut u8, len: usize) -> i32;
    }
    pub const PROT_NONE: i32 = 0;
    pub const PROT_RW: i32 = 3;
    pub const MAP_PRIVATE_ANON: i32 = 0x22;
    pub const PAGE: usize = 4096;
}

thread_local! {
    static SHIM: UnsafeCell<Shim> = UnsafeCell::new(Shim::new());
}

/// Runs `f` with the calling thread's shim. The shim never calls back into the crate, and the
/// harness never holds the reference across a crate call, so there is no re-entrancy.
#[inline]
pub fn with<R>(f: impl FnOnce(&mut Shim) -> R) -> R {
    SHIM.with(|s| f(unsafe { &mut *s.get() }))
}

impl Shim {
    fn new() -> Self {
        let arena = unsafe { std::alloc::alloc(Layout::from_size_align(ARENA, 4096).unwrap()) };
        assert!(!arena.is_null());
        Shim {
            arena,
            bump: 0,
            blocks: Vec::new(),
            errors: Vec::new(),
            c: Counters::default(),
            fail: Vec::new(),
            fault_base: 0,
            giant: 256 << 20,
            sizes: Vec::new(),
            trace: false,
            trace_log: Vec::new(),
            system: std::env::var("LSVERIF_SHIM").is_ok_and(|v| v == "system"),
            pageguard: std::env::var("LSVERIF_SHIM").is_ok_and(|v| v == "pageguard"),
            pageguard_fallbacks: 0,
        }
    }

    /// Forget everything: start of a new execution.
    pub fn reset(&mut self) {
        let system = self.system;
        let pageguard = self.pageguard;
        for b in self.blocks.drain(..) {
            if pageguard && b.mapped {
                if let Some((raw, raw_size)) = b.big {
                    unsafe { sys::munmap(raw as *mut u8, raw_size) };
                }
            } else if system {
                if b.live {
                    unsafe { std::alloc::dealloc(b.base as *mut u8, Layout::from_size_align(b.size, b.align).unwrap()) }
                }
            } else if let Some((raw, raw_size)) = b.big {
                unsafe { std::alloc::dealloc(raw as *mut u8, Layout::from_size_align(raw_size, 4096).unwrap()) }
            }
        }
        self.bump = 0;
        self.errors.clear();
        self.c = Counters::default();
        self.fail.clear();
        self.fault_base = 0;
        self.sizes.clear();
        self.trace_log.clear();
        self.giant = 256 << 20;
    }

    /// Arms the fault plan: requests number `k` (1-based) counted from now are refused.
    pub fn arm(&mut self, ks: &[u64]) {
        self.fail.clear();
        self.fail.extend_from_slice(ks);
        self.fault_base = self.c.requests;
    }
    pub fn disarm(&mut self) {
        self.fail.clear();
    }
    pub fn mark(&mut self) -> Counters {
        self.sizes.clear();
        self.c
    }

    fn refuse(&mut self, size: usize) -> bool {
        self.c.requests += 1;
        let n = self.c.requests - self.fault_base;
        if size > self.giant || self.fail.contains(&n) {
            self.c.refused += 1;
            return true;
        }
        false
    }

    fn carve(&mut self, layout: Layout) -> *mut u8 {
        if self.pageguard {
            let align = layout.align().max(8);
            let padded = layout.size().div_ceil(align) * align;
            let body = padded.div_ceil(sys::PAGE).max(1) * sys::PAGE;
            let total = body + sys::PAGE;
            let raw = unsafe { sys::mmap(std::ptr::null_mut(), total, sys::PROT_RW, sys::MAP_PRIVATE_ANON, -1, 0) };
            if raw as isize == -1 || raw.is_null() {
                // the OS refuses more mappings: this block is served from the ordinary arena (it
                // merely loses the page guard); never a reason to disturb the code under test
                self.pageguard_fallbacks += 1;
                return self.carve_arena(layout);
            }
            unsafe { sys::mprotect(raw.add(body), sys::PAGE, sys::PROT_NONE) };
            // the block ends (up to alignment padding) where the inaccessible page begins
            let user = unsafe { raw.add(body - padded) };
            unsafe {
                std::ptr::write_bytes(raw, FILL_GUARD, body - padded);
                std::ptr::write_bytes(user, FILL_FRESH, layout.size());
                std::ptr::write_bytes(user.add(layout.size()), FILL_GUARD, padded - layout.size());
            }
            self.blocks.push(Block { base: user as usize, size: layout.size(), align: layout.align(), live: true, big: Some((raw as usize, total)), mapped: true });
            return user;
        }
        if self.system {
            let p = unsafe { std::alloc::alloc(layout) };
            assert!(!p.is_null());
            unsafe { std::ptr::write_bytes(p, FILL_FRESH, layout.size()) };
            self.blocks.push(Block { base: p as usize, size: layout.size(), align: layout.align(), live: true, big: None, mapped: false });
            return p;
        }
        self.carve_arena(layout)
    }

    fn carve_arena(&mut self, layout: Layout) -> *mut u8 {
        let align = layout.align().max(16);
        let need = layout.size() + 2 * GUARD + align;
        let (raw, big) = if self.bump + need <= ARENA {
            let p = unsafe { self.arena.add(self.bump) };
            self.bump += need;
            (p, None)
        } else {
            let raw_size = need;
            let p = unsafe { std::alloc::alloc(Layout::from_size_align(raw_size, 4096).unwrap()) };
            assert!(!p.is_null(), "shim: system allocator failed for {} bytes", raw_size);
            (p, Some((p as usize, raw_size)))
        };
        // user pointer: aligned, with at least GUARD bytes in front
        let user = ((raw as usize + GUARD + align - 1) / align) * align;
        let user = user as *mut u8;
        unsafe {
            std::ptr::write_bytes(user.sub(GUARD), FILL_GUARD, GUARD);
            std::ptr::write_bytes(user, FILL_FRESH, layout.size());
            std::ptr::write_bytes(user.add(layout.size()), FILL_GUARD, GUARD);
        }
        self.blocks.push(Block { base: user as usize, size: layout.size(), align: layout.align(), live: true, big, mapped: false });
        user
    }

    pub fn find(&self, addr: usize) -> Option<usize> {
        // newest first: the most recent block is the likeliest target
        // `<=`: a zero-capacity buffer has its text pointer one past the end of its block; the
        // byte after a block belongs to that block's rear guard zone, so this is unambiguous
        if self.system {
            // addresses may be reused after a real free: prefer the live block
            if let Some(i) = self.blocks.iter().rposition(|b| b.live && addr >= b.base && addr <= b.base + b.size) {
                return Some(i);
            }
        }
        self.blocks.iter().rposition(|b| addr >= b.base && addr <= b.base + b.size)
    }
    fn find_base(&self, addr: usize) -> Option<usize> {
        if self.system {
            if let Some(i) = self.blocks.iter().rposition(|b| b.live && b.base == addr) {
                return Some(i);
            }
        }
        self.blocks.iter().rposition(|b| b.base == addr)
    }

    fn release(&mut self, p: *mut u8, layout: Layout, what: &str) -> bool {
        match self.find_base(p as usize) {
            None => {
                self.errors.push(format!("{what} of unknown pointer"));
                false
            }
            Some(i) => {
                if !self.blocks[i].live {
                    self.errors.push(format!("{what} of already freed block #{i} (double free)"));
                    return false;
                }
                if self.blocks[i].size != layout.size() || self.blocks[i].align != layout.align() {
                    self.errors.push(format!(
                        "{what} layout mismatch on block #{i}: allocated size={} align={}, released with size={} align={}",
                        self.blocks[i].size,
                        self.blocks[i].align,
                        layout.size(),
                        layout.align()
                    ));
                }
                self.blocks[i].live = false;
                if self.pageguard && self.blocks[i].mapped {
                    // quarantined and inaccessible: any later access through a stale pointer dies
                    if let Some((raw, total)) = self.blocks[i].big {
                        unsafe { sys::mprotect(raw as *mut u8, total, sys::PROT_NONE) };
                    }
                } else if self.system {
                    unsafe { std::alloc::dealloc(p, Layout::from_size_align(self.blocks[i].size, self.blocks[i].align).unwrap()) };
                } else {
                    unsafe { std::ptr::write_bytes(p, FILL_FREED, self.blocks[i].size) };
                }
                true
            }
        }
    }

    pub fn live_blocks(&self) -> usize {
        self.blocks.iter().filter(|b| b.live).count()
    }
    pub fn live_bytes(&self) -> usize {
        self.blocks.iter().filter(|b| b.live).map(|b| b.size).sum()
    }

    /// Guard zones of every block and poison of every freed block must be intact.
    pub fn audit(&self) -> Vec<String> {
        let mut e = Vec::new();
        if self.system || self.pageguard {
            return e;
        }
        for (i, b) in self.blocks.iter().enumerate() {
            unsafe {
                let lo = std::slice::from_raw_parts((b.base - GUARD) as *const u8, GUARD);
                let hi = std::slice::from_raw_parts((b.base + b.size) as *const u8, GUARD);
                if lo.iter().any(|&x| x != FILL_GUARD) {
                    e.push(format!("guard zone in front of block #{i} damaged (write before the buffer)"));
                }
                if hi.iter().any(|&x| x != FILL_GUARD) {
                    e.push(format!("guard zone behind block #{i} damaged (write past the buffer)"));
                }
                if !b.live {
                    // big freed blocks: check a bounded window at both ends to keep audits O(1)
                    let n = b.size;
                    let body = std::slice::from_raw_parts(b.base as *const u8, n);
                    let bad = if n <= 4096 {
                        body.iter().any(|&x| x != FILL_FREED)
                    } else {
                        body[..2048].iter().any(|&x| x != FILL_FREED) || body[n - 2048..].iter().any(|&x| x != FILL_FREED)
                    };
                    if bad {
                        e.push(format!("freed block #{i} was written after its release (poison damaged)"));
                    }
                }
            }
        }
        e
    }
}

unsafe fn h_alloc(layout: Layout) -> *mut u8 {
    with(|s| {
        if s.refuse(layout.size()) {
            return std::ptr::null_mut();
        }
        s.c.allocs += 1;
        s.sizes.push(layout.size());
        s.carve(layout)
    })
}

unsafe fn h_realloc(p: *mut u8, layout: Layout, new_size: usize) -> *mut u8 {
    with(|s| {
        if s.refuse(new_size) {
            return std::ptr::null_mut();
        }
        s.c.reallocs += 1;
        s.sizes.push(new_size);
        let ok = match s.find_base(p as usize) {
            Some(i) if s.blocks[i].live => true,
            Some(i) => {
                s.errors.push(format!("realloc of already freed block #{i}"));
                false
            }
            None => {
                s.errors.push("realloc of unknown pointer".to_string());
                false
            }
        };
        let np = s.carve(Layout::from_size_align(new_size, layout.align()).unwrap());
        if ok {
            let old = s.blocks[s.find_base(p as usize).unwrap()].size;
            unsafe { std::ptr::copy_nonoverlapping(p, np, old.min(new_size)) };
            s.release(p, layout, "realloc");
        }
        np
    })
}

unsafe fn h_dealloc(p: *mut u8, layout: Layout) {
    with(|s| {
        s.c.frees += 1;
        s.release(p, layout, "dealloc");
    })
}

fn h_note(access: Access, text_ptr: *const u8, start: isize, len: usize, site: &'static str) {
    with(|s| {
        s.c.notes += 1;
        let lo = (text_ptr as isize + start) as usize;
        match s.find(text_ptr as usize).or_else(|| s.find(lo)) {
            None => s.errors.push(format!("{access:?} at {site}: address is in no block the crate allocated")),
            Some(i) => {
                let b = &s.blocks[i];
                if !b.live {
                    s.errors.push(format!("{access:?} at {site}: block #{i} was already released (use after free)"));
                } else if lo < b.base || lo + len > b.base + b.size {
                    s.errors.push(format!(
                        "{access:?} at {site}: range [{}..{}) outside block #{i} of {} bytes",
                        lo as isize - b.base as isize,
                        lo as isize - b.base as isize + len as isize,
                        b.size
                    ));
                }
                if s.trace {
                    s.trace_log.push(format!("{access:?} {site} block#{i}"));
                }
            }
        }
    })
}

pub static TABLE: HookTable = HookTable { alloc: h_alloc, realloc: h_realloc, dealloc: h_dealloc, note: h_note };

pub fn install() {
    verif_hooks::install(Some(&TABLE));
}
