//! The pool of real `LeanString`s, its `String` reference model, the operation alphabet and
//! the function that executes one operation on both.
use crate::shim;
use lean_string::{LeanString, ToLeanString, verif_hooks};
use std::borrow::Cow;
use std::cell::RefCell;
use std::fmt::Write as _;
use std::panic::{AssertUnwindSafe, catch_unwind};

pub const KMAX: usize = 4;
/// the inline limit, computed, so the same alphabet straddles it on other layouts
pub const INLINE: usize = 2 * std::mem::size_of::<usize>();
pub const LMAX: usize = 4 * INLINE;
pub const ALLOC_MSG: &str = "Cannot allocate memory to hold LeanString";
/// rejected before any allocation: above the crate's 56-bit length limit on 64-bit targets,
/// above isize::MAX (no valid Layout) on 32-bit targets
#[cfg(target_pointer_width = "64")]
pub const HUGE_LIMIT: usize = 1 << 60;
#[cfg(not(target_pointer_width = "64"))]
pub const HUGE_LIMIT: usize = usize::MAX / 2 + 4096;
/// passes every limit, refused by the shim (giant threshold)
#[cfg(target_pointer_width = "64")]
pub const HUGE_ALLOC: usize = 1 << 40;
#[cfg(not(target_pointer_width = "64"))]
pub const HUGE_ALLOC: usize = 1 << 30;

const SENT: u8 = 0x5A;
const ASCII: &str = "0123456789abcdefghijklmnopqrstuvwxyzABCDEFGHIJKLMNOPQRSTUVWXYZ0123456789abcdefghijklmnopqrstuvwxyz";
pub fn ascii(n: usize) -> &'static str {
    &ASCII[..n]
}

pub const CHARS: [char; 4] = ['a', 'é', '€', '😀'];

pub struct Texts {
    pub src: Vec<String>,
    pub strs: Vec<String>,
    pub caps: Vec<usize>,
    pub reserves: Vec<usize>,
    pub statics: Vec<&'static str>,
    /// start of the leaked buffer (front margin) of each static text
    static_bufs: Vec<*const u8>,
    pub pristine: Vec<Vec<u8>>,
}

pub const STATIC_MARGIN: usize = 64;
pub const STATIC_GUARD: u8 = 0xBF;

/// Returns the text and the start of the whole leaked buffer (margin, text, margin). The text
/// reference is derived from the raw buffer pointer, and the margins are only ever read through
/// that raw pointer (so the harness itself stays within the aliasing rules Miri checks).
fn leak_static(s: String) -> (&'static str, *const u8) {
    // harness-owned *writable* memory, so that a write through the borrowed pointer is
    // observable (pristine copy comparison) instead of a SIGSEGV. The text sits between two
    // margins of a fixed pattern (a UTF-8 continuation byte): a read past either end sees the
    // same byte in every thread and every re-execution, and a write there is noticed by
    // `statics_intact`.
    let mut buf = vec![STATIC_GUARD; s.len() + 2 * STATIC_MARGIN];
    buf[STATIC_MARGIN..STATIC_MARGIN + s.len()].copy_from_slice(s.as_bytes());
    let raw: *mut u8 = Box::leak(buf.into_boxed_slice()).as_mut_ptr();
    // SAFETY: the middle part is a copy of `s`; the buffer is never released
    let text = unsafe { std::str::from_utf8_unchecked(std::slice::from_raw_parts(raw.add(STATIC_MARGIN), s.len())) };
    (text, raw as *const u8)
}

impl Texts {
    fn new() -> Self {
        let src = vec![
            String::new(),
            "é".to_string(),
            ascii(INLINE - 1).to_string(),
            format!("{}é", ascii(INLINE - 2)),
            format!("{}€", ascii(INLINE + 2)),
            format!("{}é", ascii(2 * INLINE + 8)),
        ];
        let strs = vec![String::new(), "bc".to_string(), ascii(INLINE + 1).to_uppercase()];
        let st = vec![
            ascii(INLINE).to_string(),
            ascii(INLINE + 1).to_string(),
            format!("static é€😀 {}", ascii(2 * INLINE + 8 - 17)),
        ];
        let pristine = st.iter().map(|s| s.as_bytes().to_vec()).collect();
        let (statics, static_bufs): (Vec<_>, Vec<_>) = st.into_iter().map(leak_static).unzip();
        Texts { src, strs, caps: vec![0, INLINE + 1, 2 * INLINE + 8], reserves: vec![0, 1, INLINE + 1, 2 * INLINE + 8], statics, static_bufs, pristine }
    }
    pub fn static_id(&self, ptr: usize) -> Option<(usize, usize)> {
        for (i, s) in self.statics.iter().enumerate() {
            let b = s.as_ptr() as usize;
            if ptr >= b && ptr <= b + s.len() {
                return Some((i, ptr - b));
            }
        }
        None
    }
    pub fn statics_intact(&self) -> bool {
        self.statics.iter().zip(&self.static_bufs).zip(&self.pristine).all(|((s, &raw), p)| {
            // SAFETY: `leak_static` made `raw` the start of margin + text + margin
            let whole = unsafe { std::slice::from_raw_parts(raw, s.len() + 2 * STATIC_MARGIN) };
            whole[STATIC_MARGIN..STATIC_MARGIN + s.len()] == p[..] && whole[..STATIC_MARGIN].iter().chain(&whole[STATIC_MARGIN + s.len()..]).all(|&b| b == STATIC_GUARD)
        })
    }
}

thread_local! {
    pub static TEXTS: Texts = Texts::new();
    static EXPECT_PANIC: RefCell<u32> = const { RefCell::new(0) };
}

pub fn texts<R>(f: impl FnOnce(&Texts) -> R) -> R {
    TEXTS.with(|t| f(t))
}

/// Installs a panic hook that stays silent while the harness expects a panic.
pub fn install_panic_hook() {
    let prev = std::panic::take_hook();
    std::panic::set_hook(Box::new(move |info| {
        let quiet = EXPECT_PANIC.with(|e| *e.borrow() > 0) && std::env::var_os("LSVERIF_TRACE").is_none();
        if !quiet {
            prev(info);
        }
    }));
}

pub fn panic_msg(p: &(dyn std::any::Any + Send)) -> String {
    p.downcast_ref::<String>().cloned().or_else(|| p.downcast_ref::<&str>().map(|s| s.to_string())).unwrap_or_else(|| "<non-string panic>".into())
}

/// `catch_unwind` with the panic hook silenced.
pub fn quiet<R>(f: impl FnOnce() -> R) -> Result<R, String> {
    EXPECT_PANIC.with(|e| *e.borrow_mut() += 1);
    let r = catch_unwind(AssertUnwindSafe(f));
    EXPECT_PANIC.with(|e| *e.borrow_mut() -= 1);
    r.map_err(|p| panic_msg(&*p))
}

#[derive(Clone, Copy, Debug, PartialEq, Eq, Hash, PartialOrd, Ord)]
pub enum Idx {
    Zero,
    One,
    Mid,
    Last,
    Len,
    Past,
    Inside,
    Abs(u8),
}

pub fn resolve(s: &str, i: Idx) -> Option<usize> {
    let len = s.len();
    let floor = |mut n: usize| {
        while !s.is_char_boundary(n) {
            n -= 1;
        }
        n
    };
    Some(match i {
        Idx::Zero => 0,
        Idx::One => s.chars().next().map(|c| c.len_utf8()).unwrap_or(0),
        Idx::Mid => floor(len / 2),
        Idx::Last => s.char_indices().next_back().map(|(i, _)| i).unwrap_or(0),
        Idx::Len => len,
        Idx::Past => len + 1,
        Idx::Inside => return (0..len).find(|&n| !s.is_char_boundary(n)),
        Idx::Abs(n) => n as usize,
    })
}

#[derive(Clone, Copy, Debug, PartialEq, Eq, Hash, PartialOrd, Ord)]
pub enum Op {
    // constructors (lowest empty slot)
    New,
    FromStr(u8),
    FromString(u8),
    Collect(u8),
    ToLeanDisplay(u8),
    /// to_lean_string of a Display impl that ignores the results of its write_str calls
    ToLeanSwallow(u8),
    FromStatic(u8),
    WithCap(u8),
    /// other conversions: (kind, text/value selector), see `conv_*`
    Conv(u8, u8),
    // sharing
    Clone(u8),
    FromRef(u8),
    ToLeanClone(u8),
    CloneFrom(u8, u8), // (src, dst)
    Assign(u8, u8),    // dst = src.clone()
    Drop(u8),
    // mutators
    Push(u8, u8),
    PushStr(u8, u8),
    Pop(u8),
    Remove(u8, Idx),
    Insert(u8, Idx, u8),
    InsertStr(u8, Idx, u8),
    Truncate(u8, Idx),
    Clear(u8),
    Retain(u8, u8),
    Reserve(u8, u8),
    ShrinkTo(u8, u8),
    ShrinkFit(u8),
    ExtendChars(u8),
    ExtendStrs(u8),
    ExtendLean(u8, u8), // (dst, src): dst.extend([src.clone()])
    /// extend with a filtering char iterator: size_hint = (0, Some(more than is yielded))
    ExtendFiltered(u8),
    /// extend with two chars from an iterator whose size hint is LYING_HINTS[k]
    ExtendLying(u8, u8),
    AddAssign(u8),
    Add(u8),
    WriteFmt(u8),
    /// `write!(s, "<{}>{}{}", 5, bad, "tail")` where `bad`'s Display writes "[1|" and then returns
    /// Err (kind 0) or panics (kind 1): String keeps "<5>[1|"
    WriteFmtBad(u8, u8),
    // operations that fail without fault injection
    ReserveHuge(u8, u8), // 0: 1<<60 (limit), 1: 1<<40 (allocator refuses), 2: usize::MAX
    ExtendHuge(u8, u8),  // size_hint lower bound huge, yields n items
    RetainPanic(u8, u8), // predicate panics at its k-th call (1-based)
    // seed-only helpers
    TruncateAbs(u8, u8),
    PushAscii(u8, u8), // push_str of n ascii bytes
    WithCapAbs(u8),
}

impl Op {
    /// the slot whose value the operation is allowed to change
    pub fn target(self) -> Option<usize> {
        use Op::*;
        Some(match self {
            New | FromStr(_) | FromString(_) | Collect(_) | ToLeanDisplay(_) | ToLeanSwallow(_) | FromStatic(_) | WithCap(_) | WithCapAbs(_) | Conv(..) => return None,
            Clone(_) | FromRef(_) | ToLeanClone(_) => return None,
            CloneFrom(_, d) | Assign(_, d) => d,
            Drop(i) | Push(i, _) | PushStr(i, _) | Pop(i) | Remove(i, _) | Insert(i, _, _) | InsertStr(i, _, _) | Truncate(i, _) | Clear(i) | Retain(i, _) | Reserve(i, _) | ShrinkTo(i, _) | ShrinkFit(i) | ExtendChars(i) | ExtendStrs(i) | ExtendLean(i, _) | ExtendFiltered(i) | ExtendLying(i, _) | AddAssign(i) | Add(i) | WriteFmt(i) | WriteFmtBad(i, _) | ReserveHuge(i, _) | ExtendHuge(i, _) | RetainPanic(i, _) | TruncateAbs(i, _) | PushAscii(i, _) => i,
        } as usize)
    }
    pub fn is_ctor(self) -> bool {
        use Op::*;
        matches!(self, New | FromStr(_) | FromString(_) | Collect(_) | ToLeanDisplay(_) | ToLeanSwallow(_) | FromStatic(_) | WithCap(_) | WithCapAbs(_) | Conv(..))
    }
    pub fn is_clone(self) -> bool {
        use Op::*;
        matches!(self, Clone(_) | FromRef(_) | ToLeanClone(_))
    }
    pub fn kind_name(self) -> &'static str {
        use Op::*;
        match self {
            New => "new",
            FromStr(_) => "from_str",
            FromString(_) => "from_string",
            Collect(_) => "collect",
            ToLeanDisplay(_) => "to_lean_string_display",
            ToLeanSwallow(_) => "to_lean_string_swallowing_display",
            FromStatic(_) => "from_static_str",
            WithCap(_) | WithCapAbs(_) => "with_capacity",
            Conv(k, _) => CONV_NAMES[k as usize],
            Clone(_) => "clone",
            FromRef(_) => "from_ref",
            ToLeanClone(_) => "to_lean_string_clone",
            CloneFrom(..) => "clone_from",
            Assign(..) => "assign",
            Drop(_) => "drop",
            Push(..) => "push",
            PushStr(..) | PushAscii(..) => "push_str",
            Pop(_) => "pop",
            Remove(..) => "remove",
            Insert(..) => "insert",
            InsertStr(..) => "insert_str",
            Truncate(..) | TruncateAbs(..) => "truncate",
            Clear(_) => "clear",
            Retain(..) => "retain",
            Reserve(..) => "reserve",
            ShrinkTo(..) => "shrink_to",
            ShrinkFit(_) => "shrink_to_fit",
            ExtendChars(_) => "extend_chars",
            ExtendStrs(_) => "extend_strs",
            ExtendLean(..) => "extend_lean",
            ExtendFiltered(_) => "extend_filtered",
            ExtendLying(..) => "extend_lying_hint",
            AddAssign(_) => "add_assign",
            Add(_) => "add",
            WriteFmt(_) => "write_fmt",
            WriteFmtBad(_, 0) => "write_fmt_display_err",
            WriteFmtBad(..) => "write_fmt_display_panic",
            ReserveHuge(..) => "reserve_huge",
            ExtendHuge(..) => "extend_huge_hint",
            RetainPanic(..) => "retain_panic",
        }
    }
}

#[derive(Clone, Copy, Debug, PartialEq, Eq)]
pub enum Form {
    Plain,
    Try,
}

#[derive(Clone, Debug, PartialEq, Eq)]
pub enum Out {
    Unit,
    /// `fmt::Result::is_ok()` of a `write!`
    Fmt(bool),
    OptChar(Option<char>),
    Char(char),
}

/// What the real code did.
#[derive(Clone, Debug, PartialEq, Eq)]
pub enum Outcome {
    Done(Out),
    ReserveErr,
    Panic(String),
}

/// What the reference says must happen.
#[derive(Clone, Debug, PartialEq, Eq)]
pub enum Expect {
    Done(Out),
    /// String panics for these arguments (bad index, panicking callback)
    Panic,
    /// must be refused with ReserveError (plain form: panic with ALLOC_MSG)
    Refuse,
    /// size-hint reservation may be refused silently; the call still completes
    Absorb(Out),
}

#[repr(C)]
pub struct Slot {
    g0: [u8; 64],
    pub h: Option<LeanString>,
    g1: [u8; 64],
}

pub struct Pool {
    pub k: usize,
    pub s: [Slot; KMAX],
    pub m: [Option<String>; KMAX],
}

#[derive(Clone, Copy, Debug, PartialEq, Eq, Hash, PartialOrd, Ord)]
pub enum Kind {
    Inline,
    Static,
    Heap,
}

#[derive(Clone, Debug, PartialEq, Eq)]
pub struct SlotObs {
    pub kind: Kind,
    pub len: usize,
    pub cap: usize,
    pub ptr: usize,
    pub rc: usize,
    pub raw: [u8; 16],
    pub text: Vec<u8>,
    pub heap_flag: bool,
}

pub fn kind_of(h: &LeanString) -> Kind {
    let ptr = h.as_ptr() as usize;
    let me = h as *const LeanString as usize;
    if ptr >= me && ptr < me + std::mem::size_of::<LeanString>() {
        Kind::Inline
    } else if h.is_heap_allocated() {
        Kind::Heap
    } else {
        Kind::Static
    }
}

pub fn raw_of(h: &LeanString) -> [u8; 16] {
    let mut raw = [0u8; 16];
    let n = std::mem::size_of::<LeanString>();
    unsafe { std::ptr::copy_nonoverlapping(h as *const LeanString as *const u8, raw.as_mut_ptr(), n) };
    raw
}

pub fn observe(h: &LeanString) -> SlotObs {
    SlotObs { kind: kind_of(h), len: h.len(), cap: h.capacity(), ptr: h.as_ptr() as usize, rc: verif_hooks::refcount(h).unwrap_or(0), raw: raw_of(h), text: h.as_bytes().to_vec(), heap_flag: h.is_heap_allocated() }
}

impl Pool {
    pub fn new(k: usize) -> Self {
        assert!(k <= KMAX);
        let slot = || Slot { g0: [SENT; 64], h: None, g1: [SENT; 64] };
        Pool { k, s: [slot(), slot(), slot(), slot()], m: [None, None, None, None] }
    }
    pub fn h(&self, i: usize) -> Option<&LeanString> {
        self.s[i].h.as_ref()
    }
    pub fn empty_slot(&self) -> Option<usize> {
        (0..self.k).find(|&i| self.s[i].h.is_none())
    }
    pub fn observe(&self) -> Vec<Option<SlotObs>> {
        (0..self.k).map(|i| self.s[i].h.as_ref().map(observe)).collect()
    }
    pub fn sentinels_intact(&self) -> bool {
        self.s.iter().all(|s| s.g0.iter().all(|&b| b == SENT) && s.g1.iter().all(|&b| b == SENT))
    }
    /// drop every handle, starting at slot `rot`, wrapping around
    pub fn close(&mut self, rot: usize) {
        for j in 0..self.k {
            let i = (j + rot) % self.k;
            self.s[i].h = None;
            self.m[i] = None;
        }
    }
}

fn retain_pred(kind: u8) -> impl FnMut(char) -> bool {
    let mut n = 0u32;
    move |c| {
        n += 1;
        match kind {
            0 => true,
            1 => false,
            2 => !c.is_ascii(),
            _ => n % 2 == 1,
        }
    }
}
fn retain_pred_panic(at: u8) -> impl FnMut(char) -> bool {
    let mut n = 0u8;
    move |_c| {
        n += 1;
        if n == at {
            panic!("predicate panics")
        }
        n % 2 == 1
    }
}

pub struct HugeHint<I> {
    pub it: I,
    pub hint: usize,
}
impl<I: Iterator> Iterator for HugeHint<I> {
    type Item = I::Item;
    fn next(&mut self) -> Option<I::Item> {
        self.it.next()
    }
    fn size_hint(&self) -> (usize, Option<usize>) {
        (self.hint, None)
    }
}

/// an iterator whose size hint is whatever the harness says (size hints are advisory: the
/// reference, String, appends what is actually yielded)
pub struct Hinted<I> {
    pub it: I,
    pub lower: usize,
    pub upper: Option<usize>,
}
impl<I: Iterator> Iterator for Hinted<I> {
    type Item = I::Item;
    fn next(&mut self) -> Option<I::Item> {
        self.it.next()
    }
    fn size_hint(&self) -> (usize, Option<usize>) {
        (self.lower, self.upper)
    }
}
pub const LYING_HINTS: [(usize, Option<usize>); 4] = [(0, Some(0)), (0, Some(1)), (5, Some(5)), (1, Some(0))];

pub fn huge_value(which: u8) -> usize {
    match which {
        0 => HUGE_LIMIT,
        1 => HUGE_ALLOC,
        _ => usize::MAX,
    }
}

struct Piecewise<'a>(&'a str);
impl std::fmt::Display for Piecewise<'_> {
    fn fmt(&self, f: &mut std::fmt::Formatter<'_>) -> std::fmt::Result {
        // emit the text in two pieces at a char boundary
        let mid = {
            let mut n = self.0.len() / 2;
            while !self.0.is_char_boundary(n) {
                n -= 1;
            }
            n
        };
        f.write_str(&self.0[..mid])?;
        f.write_str(&self.0[mid..])
    }
}

/// try_to_lean_string with the two error kinds kept apart: an allocation failure must be
/// reported as `Reserve`; a `Fmt` error here is turned into a (non-allocation) panic.
pub fn try_tls<T: ToLeanString>(v: &T) -> Result<LeanString, lean_string::ReserveError> {
    match v.try_to_lean_string() {
        Ok(s) => Ok(s),
        Err(lean_string::ToLeanStringError::Reserve(e)) => Err(e),
        Err(lean_string::ToLeanStringError::Fmt(_)) => panic!("try_to_lean_string returned Err(Fmt)"),
    }
}

pub const CONV_NAMES: [&str; 12] = ["from_utf8", "from_utf8_lossy", "from_utf16", "from_utf16_lossy", "to_lean_string_string", "from_box_str", "from_ref_string", "from_cow_owned", "to_lean_string_int", "to_lean_string_i128", "from_char", "to_lean_string_bool"];
pub const CONV_KINDS: u8 = 12;

fn conv_bytes(t: u8) -> Vec<u8> {
    // source text with one invalid byte spliced in for the lossy decoders
    let mut b = texts(|x| x.src[t as usize].as_bytes().to_vec());
    let at = b.len() / 2;
    let at = (0..=at).rev().find(|&i| std::str::from_utf8(&b[..i]).is_ok()).unwrap_or(0);
    b.insert(at, 0xFF);
    b
}
fn conv_u16(t: u8, lossy: bool) -> Vec<u16> {
    let mut v: Vec<u16> = texts(|x| x.src[t as usize].encode_utf16().collect());
    if lossy {
        v.insert(v.len() / 2, 0xD800);
        // a lone high surrogate followed by a non-surrogate is one invalid unit
    }
    v
}
const CONV_INTS: [u64; 5] = [0, 9_999_999_999_999_999, 10_000_000_000_000_000, u64::MAX, 12345];
const CONV_I128: [i128; 5] = [0, -1, i128::MIN, i128::MAX, -9_999_999_999_999_999];

/// the text the reference (std) produces for conversion `(k, t)`
pub fn conv_text(k: u8, t: u8) -> String {
    let src = texts(|x| x.src[(t as usize) % x.src.len()].clone());
    match k {
        0 | 2 | 4 | 5 | 6 | 7 => src,
        1 => String::from_utf8_lossy(&conv_bytes(t)).into_owned(),
        3 => String::from_utf16_lossy(&conv_u16(t, true)),
        8 => CONV_INTS[t as usize % 5].to_string(),
        9 => CONV_I128[t as usize % 5].to_string(),
        10 => CHARS[t as usize % 4].to_string(),
        _ => (t % 2 == 0).to_string(),
    }
}

pub fn conv_build(k: u8, t: u8, try_form: bool) -> Result<LeanString, lean_string::ReserveError> {
    let src = texts(|x| x.src[(t as usize) % x.src.len()].clone());
    Ok(match k {
        0 => LeanString::from_utf8(src.as_bytes()).unwrap(),
        1 => LeanString::from_utf8_lossy(&conv_bytes(t)),
        2 => LeanString::from_utf16(&conv_u16(t, false)).unwrap(),
        3 => LeanString::from_utf16_lossy(&conv_u16(t, true)),
        4 => {
            if try_form {
                try_tls(&src)?
            } else {
                src.to_lean_string()
            }
        }
        5 => LeanString::from(src.into_boxed_str()),
        6 => LeanString::from(&src),
        7 => LeanString::from(Cow::<str>::Owned(src)),
        8 => {
            let v = CONV_INTS[t as usize % 5];
            if try_form { try_tls(&v)? } else { v.to_lean_string() }
        }
        9 => {
            let v = CONV_I128[t as usize % 5];
            if try_form { try_tls(&v)? } else { v.to_lean_string() }
        }
        10 => {
            let c = CHARS[t as usize % 4];
            if try_form { try_tls(&c)? } else { LeanString::from(c) }
        }
        _ => {
            let b = t % 2 == 0;
            if try_form { try_tls(&b)? } else { b.to_lean_string() }
        }
    })
}

/// a Display impl that writes three pieces and ignores what write_str returns
struct Swallowing<'a>(&'a str);
impl std::fmt::Display for Swallowing<'_> {
    fn fmt(&self, f: &mut std::fmt::Formatter<'_>) -> std::fmt::Result {
        let cut = |n: usize| {
            let mut n = n.min(self.0.len());
            while !self.0.is_char_boundary(n) {
                n -= 1;
            }
            n
        };
        let (a, b) = (cut(self.0.len() / 3), cut(2 * self.0.len() / 3));
        let _ = f.write_str(&self.0[..a]);
        let _ = f.write_str(&self.0[a..b]);
        let _ = f.write_str(&self.0[b..]);
        Ok(())
    }
}

pub fn shrink_arg(h: &LeanString, k: u8) -> usize {
    match k {
        0 => 0,
        1 => h.len(),
        2 => INLINE + 1,
        _ => h.capacity().saturating_sub(1),
    }
}

macro_rules! lean_call {
    // $form, plain expression, try expression -> Outcome with Out built by $wrap
    ($form:expr, $plain:expr, $try_:expr, $wrap:expr) => {
        match $form {
            Form::Plain => match quiet(|| $plain) {
                Ok(v) => Outcome::Done($wrap(v)),
                Err(m) => Outcome::Panic(m),
            },
            Form::Try => match quiet(|| $try_) {
                Ok(Ok(v)) => Outcome::Done($wrap(v)),
                Ok(Err(_)) => Outcome::ReserveErr,
                Err(m) => Outcome::Panic(m),
            },
        }
    };
}

fn model_call<R>(f: impl FnOnce() -> R, wrap: impl FnOnce(R) -> Out) -> Expect {
    match quiet(f) {
        Ok(v) => Expect::Done(wrap(v)),
        Err(_) => Expect::Panic,
    }
}

#[derive(Clone, Copy, Debug)]
pub struct Limits {
    /// growing operations are enabled only while the text is shorter than this
    pub pre: usize,
    /// if set, growing operations are enabled only if the result stays within this length
    pub post: Option<usize>,
}
pub const WIDE_LIMITS: Limits = Limits { pre: LMAX, post: None };

pub fn grow_bytes(p: &Pool, op: Op) -> usize {
    use Op::*;
    match op {
        Push(_, c) | Insert(_, _, c) => CHARS[c as usize].len_utf8(),
        PushStr(_, s) | InsertStr(_, _, s) => texts(|t| t.strs[s as usize].len()),
        PushAscii(_, n) => n as usize,
        AddAssign(_) | Add(_) | WriteFmt(_) => 2,
        WriteFmtBad(..) => 6,
        ExtendChars(_) | ExtendFiltered(_) | ExtendLying(..) => 4,
        ExtendStrs(_) => 3,
        ExtendHuge(_, n) => [0, 1, 3][n as usize],
        ExtendLean(_, s) => p.m[s as usize].as_ref().map_or(0, |m| m.len()),
        _ => 0,
    }
}

/// Is `op` enabled in this pool (arguments resolvable, slots in the right state)?
pub fn op_enabled(p: &Pool, op: Op, lim: &Limits) -> bool {
    use Op::*;
    let has = |i: u8| (i as usize) < p.k && p.m[i as usize].is_some();
    if op.is_ctor() {
        if p.empty_slot().is_none() {
            return false;
        }
        if let Some(post) = lim.post {
            let n = match op {
                FromStr(t) | FromString(t) | Collect(t) | ToLeanDisplay(t) | ToLeanSwallow(t) => texts(|x| x.src[t as usize].len()),
                Conv(k, t) => conv_text(k, t).len(),
                FromStatic(t) => texts(|x| x.statics[t as usize].len()),
                WithCap(c) => texts(|x| x.caps[c as usize]),
                WithCapAbs(n) => n as usize,
                _ => 0,
            };
            return n <= post;
        }
        return true;
    }
    let grows_ok = |i: u8| {
        let len = p.m[i as usize].as_ref().unwrap().len();
        len < lim.pre && lim.post.is_none_or(|post| len + grow_bytes(p, op) <= post)
    };
    match op {
        Clone(i) | FromRef(i) | ToLeanClone(i) => has(i) && p.empty_slot().is_some(),
        CloneFrom(s, d) | Assign(s, d) => s != d && has(s) && has(d),
        ExtendLean(d, s) => has(d) && has(s) && grows_ok(d),
        Remove(i, ix) | Insert(i, ix, _) | InsertStr(i, ix, _) | Truncate(i, ix) => {
            if !has(i) {
                return false;
            }
            let m = p.m[i as usize].as_ref().unwrap();
            if matches!(op, Insert(..) | InsertStr(..)) && !grows_ok(i) {
                return false;
            }
            match resolve(m, ix) {
                None => false,
                Some(n) => match (op, ix) {
                    // absolute indices: everything up to len + 2
                    (_, Idx::Abs(_)) => n <= m.len() + 2,
                    // in-range removes need a char at that position; Len/Past/Inside are the
                    // panicking cases and always enabled
                    (Remove(..), Idx::Zero | Idx::One | Idx::Mid | Idx::Last) => n < m.len(),
                    _ => true,
                },
            }
        }
        Push(i, _) | PushStr(i, _) | ExtendChars(i) | ExtendFiltered(i) | ExtendLying(i, _) | ExtendStrs(i) | AddAssign(i) | Add(i) | WriteFmt(i) | WriteFmtBad(i, _) | PushAscii(i, _) | ExtendHuge(i, _) => has(i) && grows_ok(i),
        Drop(i) | Pop(i) | Clear(i) | Retain(i, _) | ShrinkTo(i, _) | ShrinkFit(i) | ReserveHuge(i, _) | TruncateAbs(i, _) => has(i),
        Reserve(i, k) => has(i) && lim.post.is_none_or(|post| p.m[i as usize].as_ref().unwrap().len() + texts(|t| t.reserves[k as usize]) <= post),
        RetainPanic(i, k) => has(i) && p.m[i as usize].as_ref().unwrap().chars().count() >= k as usize,
        _ => unreachable!(),
    }
}

/// Executes `op` on the real handle(s) and on the model. Returns what happened and what the
/// reference demands. The model is updated according to the reference, never according to
/// the real code.
pub fn exec(p: &mut Pool, op: Op, form: Form) -> (Outcome, Expect) {
    use Op::*;
    let unit = |_: ()| Out::Unit;
    macro_rules! hm {
        ($i:expr) => {{
            let i = $i as usize;
            (p.s[i].h.as_mut().unwrap(), p.m[i].as_mut().unwrap())
        }};
    }
    macro_rules! ctor {
        ($plain:expr, $try_:expr, $text:expr) => {{
            let e = p.empty_slot().unwrap();
            let text: String = $text;
            let out = match form {
                Form::Plain => match quiet(|| $plain) {
                    Ok(v) => {
                        p.s[e].h = Some(v);
                        Outcome::Done(Out::Unit)
                    }
                    Err(m) => Outcome::Panic(m),
                },
                Form::Try => match quiet(|| $try_) {
                    Ok(Ok(v)) => {
                        p.s[e].h = Some(v);
                        Outcome::Done(Out::Unit)
                    }
                    Ok(Err(_)) => Outcome::ReserveErr,
                    Err(m) => Outcome::Panic(m),
                },
            };
            p.m[e] = Some(text);
            (out, Expect::Done(Out::Unit))
        }};
    }
    match op {
        New => ctor!(LeanString::new(), Ok::<_, lean_string::ReserveError>(LeanString::default()), String::new()),
        FromStr(t) => {
            let s = texts(|x| x.src[t as usize].clone());
            ctor!(LeanString::from(s.as_str()), s.parse::<LeanString>(), s.clone())
        }
        FromString(t) => {
            let s = texts(|x| x.src[t as usize].clone());
            ctor!(LeanString::from(s.clone()), Ok::<_, lean_string::ReserveError>(LeanString::from(Cow::Borrowed(s.as_str()))), s.clone())
        }
        Collect(t) => {
            let s = texts(|x| x.src[t as usize].clone());
            ctor!(s.chars().collect::<LeanString>(), Ok::<_, lean_string::ReserveError>(s.split_inclusive(|_| true).collect::<LeanString>()), s.clone())
        }
        ToLeanDisplay(t) => {
            let s = texts(|x| x.src[t as usize].clone());
            ctor!(Piecewise(&s).to_lean_string(), try_tls(&Piecewise(&s)), s.clone())
        }
        ToLeanSwallow(t) => {
            let s = texts(|x| x.src[t as usize].clone());
            ctor!(Swallowing(&s).to_lean_string(), try_tls(&Swallowing(&s)), s.clone())
        }
        FromStatic(t) => {
            let s: &'static str = texts(|x| x.statics[t as usize]);
            ctor!(LeanString::from_static_str(s), Ok::<_, lean_string::ReserveError>(LeanString::from_static_str(s)), s.to_string())
        }
        WithCap(c) => {
            let n = texts(|x| x.caps[c as usize]);
            ctor!(LeanString::with_capacity(n), LeanString::try_with_capacity(n), String::new())
        }
        WithCapAbs(n) => ctor!(LeanString::with_capacity(n as usize), LeanString::try_with_capacity(n as usize), String::new()),
        Conv(k, t) => {
            let text = conv_text(k, t);
            ctor!(conv_build(k, t, false).unwrap(), conv_build(k, t, true), text.clone())
        }
        Clone(i) | FromRef(i) | ToLeanClone(i) => {
            let e = p.empty_slot().unwrap();
            let src = p.s[i as usize].h.as_ref().unwrap();
            let r = quiet(|| match op {
                Clone(_) => src.clone(),
                FromRef(_) => LeanString::from(src),
                _ => match form {
                    Form::Plain => src.to_lean_string(),
                    Form::Try => src.try_to_lean_string().unwrap(),
                },
            });
            let out = match r {
                Ok(v) => {
                    p.s[e].h = Some(v);
                    Outcome::Done(Out::Unit)
                }
                Err(m) => Outcome::Panic(m),
            };
            p.m[e] = p.m[i as usize].clone();
            (out, Expect::Done(Out::Unit))
        }
        CloneFrom(s, d) => {
            let src: *const LeanString = p.s[s as usize].h.as_ref().unwrap();
            let dst = p.s[d as usize].h.as_mut().unwrap();
            // SAFETY: s != d, the two slots are distinct objects
            let r = quiet(|| dst.clone_from(unsafe { &*src }));
            p.m[d as usize] = p.m[s as usize].clone();
            (r.map(|_| Outcome::Done(Out::Unit)).unwrap_or_else(Outcome::Panic), Expect::Done(Out::Unit))
        }
        Assign(s, d) => {
            let r = quiet(|| {
                let c = p.s[s as usize].h.as_ref().unwrap().clone();
                p.s[d as usize].h = Some(c);
            });
            p.m[d as usize] = p.m[s as usize].clone();
            (r.map(|_| Outcome::Done(Out::Unit)).unwrap_or_else(Outcome::Panic), Expect::Done(Out::Unit))
        }
        Drop(i) => {
            let r = quiet(|| p.s[i as usize].h = None);
            p.m[i as usize] = None;
            (r.map(|_| Outcome::Done(Out::Unit)).unwrap_or_else(Outcome::Panic), Expect::Done(Out::Unit))
        }
        Push(i, c) => {
            let ch = CHARS[c as usize];
            let (h, m) = hm!(i);
            (lean_call!(form, h.push(ch), h.try_push(ch), unit), model_call(|| m.push(ch), unit))
        }
        PushStr(i, s) => {
            let t = texts(|x| x.strs[s as usize].clone());
            let (h, m) = hm!(i);
            (lean_call!(form, h.push_str(&t), h.try_push_str(&t), unit), model_call(|| m.push_str(&t), unit))
        }
        PushAscii(i, n) => {
            let t = ascii(n as usize);
            let (h, m) = hm!(i);
            (lean_call!(form, h.push_str(t), h.try_push_str(t), unit), model_call(|| m.push_str(t), unit))
        }
        Pop(i) => {
            let (h, m) = hm!(i);
            (lean_call!(form, h.pop(), h.try_pop(), Out::OptChar), model_call(|| m.pop(), Out::OptChar))
        }
        Remove(i, ix) => {
            let (h, m) = hm!(i);
            let n = resolve(m, ix).unwrap();
            (lean_call!(form, h.remove(n), h.try_remove(n), Out::Char), model_call(|| m.remove(n), Out::Char))
        }
        Insert(i, ix, c) => {
            let ch = CHARS[c as usize];
            let (h, m) = hm!(i);
            let n = resolve(m, ix).unwrap();
            (lean_call!(form, h.insert(n, ch), h.try_insert(n, ch), unit), model_call(|| m.insert(n, ch), unit))
        }
        InsertStr(i, ix, s) => {
            let t = texts(|x| x.strs[s as usize].clone());
            let (h, m) = hm!(i);
            let n = resolve(m, ix).unwrap();
            (lean_call!(form, h.insert_str(n, &t), h.try_insert_str(n, &t), unit), model_call(|| m.insert_str(n, &t), unit))
        }
        Truncate(i, ix) => {
            let (h, m) = hm!(i);
            let n = resolve(m, ix).unwrap();
            (lean_call!(form, h.truncate(n), h.try_truncate(n), unit), model_call(|| m.truncate(n), unit))
        }
        TruncateAbs(i, n) => {
            let (h, m) = hm!(i);
            let n = n as usize;
            (lean_call!(form, h.truncate(n), h.try_truncate(n), unit), model_call(|| m.truncate(n), unit))
        }
        Clear(i) => {
            let (h, m) = hm!(i);
            let r = quiet(|| h.clear());
            m.clear();
            (r.map(|_| Outcome::Done(Out::Unit)).unwrap_or_else(Outcome::Panic), Expect::Done(Out::Unit))
        }
        Retain(i, k) => {
            let (h, m) = hm!(i);
            (lean_call!(form, h.retain(retain_pred(k)), h.try_retain(retain_pred(k)), unit), model_call(|| m.retain(retain_pred(k)), unit))
        }
        RetainPanic(i, k) => {
            let (h, m) = hm!(i);
            (lean_call!(form, h.retain(retain_pred_panic(k)), h.try_retain(retain_pred_panic(k)), unit), model_call(|| m.retain(retain_pred_panic(k)), unit))
        }
        Reserve(i, k) => {
            let n = texts(|x| x.reserves[k as usize]);
            let (h, _m) = hm!(i);
            (lean_call!(form, h.reserve(n), h.try_reserve(n), unit), Expect::Done(Out::Unit))
        }
        ReserveHuge(i, w) => {
            let n = huge_value(w);
            let (h, _m) = hm!(i);
            (lean_call!(form, h.reserve(n), h.try_reserve(n), unit), Expect::Refuse)
        }
        ShrinkTo(i, k) => {
            let (h, _m) = hm!(i);
            let n = shrink_arg(h, k);
            (lean_call!(form, h.shrink_to(n), h.try_shrink_to(n), unit), Expect::Done(Out::Unit))
        }
        ShrinkFit(i) => {
            let (h, _m) = hm!(i);
            (lean_call!(form, h.shrink_to_fit(), h.try_shrink_to_fit(), unit), Expect::Done(Out::Unit))
        }
        ExtendChars(i) => {
            let (h, m) = hm!(i);
            let items = ['a', '€'];
            let r = match form {
                Form::Plain => quiet(|| h.extend(items)),
                Form::Try => quiet(|| h.extend(items.iter())),
            };
            m.extend(items);
            (r.map(|_| Outcome::Done(Out::Unit)).unwrap_or_else(Outcome::Panic), Expect::Done(Out::Unit))
        }
        ExtendStrs(i) => {
            let (h, m) = hm!(i);
            let r = match form {
                Form::Plain => quiet(|| h.extend(["b", "cd"])),
                Form::Try => quiet(|| h.extend([String::from("b"), String::from("cd")])),
            };
            m.extend(["b", "cd"]);
            (r.map(|_| Outcome::Done(Out::Unit)).unwrap_or_else(Outcome::Panic), Expect::Done(Out::Unit))
        }
        ExtendLying(i, k) => {
            let (h, m) = hm!(i);
            let (lower, upper) = LYING_HINTS[k as usize];
            let items = ['a', '€'];
            let r = match form {
                Form::Plain => quiet(|| h.extend(Hinted { it: items.into_iter(), lower, upper })),
                Form::Try => quiet(|| h.extend(Hinted { it: items.iter(), lower, upper })),
            };
            m.extend(items);
            (r.map(|_| Outcome::Done(Out::Unit)).unwrap_or_else(Outcome::Panic), Expect::Done(Out::Unit))
        }
        ExtendFiltered(i) => {
            let (h, m) = hm!(i);
            // yields 'a', '€' (4 bytes); the upper bound of the size hint is 9 (the byte length)
            let src = "ax€xyzq";
            let r = match form {
                Form::Plain => quiet(|| h.extend(src.chars().filter(|c| !"xyzq".contains(*c)))),
                Form::Try => quiet(|| h.extend(src.chars().filter(|c| !"xyzq".contains(*c)).collect::<Vec<char>>().iter().filter(|_| true))),
            };
            m.extend(src.chars().filter(|c| !"xyzq".contains(*c)));
            (r.map(|_| Outcome::Done(Out::Unit)).unwrap_or_else(Outcome::Panic), Expect::Done(Out::Unit))
        }
        ExtendLean(d, s) => {
            let item = p.s[s as usize].h.as_ref().unwrap().clone();
            let text = p.m[s as usize].clone().unwrap();
            let (h, m) = hm!(d);
            let r = quiet(move || h.extend([item]));
            m.push_str(&text);
            (r.map(|_| Outcome::Done(Out::Unit)).unwrap_or_else(Outcome::Panic), Expect::Done(Out::Unit))
        }
        ExtendHuge(i, n) => {
            let (h, m) = hm!(i);
            let items: Vec<char> = ['x', 'é'].into_iter().take(n as usize).collect();
            let it = HugeHint { it: items.clone().into_iter(), hint: HUGE_LIMIT };
            let r = quiet(move || h.extend(it));
            m.extend(items);
            (r.map(|_| Outcome::Done(Out::Unit)).unwrap_or_else(Outcome::Panic), Expect::Absorb(Out::Unit))
        }
        AddAssign(i) => {
            let (h, m) = hm!(i);
            let r = quiet(|| *h += "xy");
            *m += "xy";
            (r.map(|_| Outcome::Done(Out::Unit)).unwrap_or_else(Outcome::Panic), Expect::Done(Out::Unit))
        }
        Add(i) => {
            let i = i as usize;
            let v = p.s[i].h.take().unwrap();
            let r = quiet(move || v + "xy");
            let out = match r {
                Ok(v) => {
                    p.s[i].h = Some(v);
                    Outcome::Done(Out::Unit)
                }
                Err(m) => Outcome::Panic(m),
            };
            let m = p.m[i].take().unwrap();
            p.m[i] = Some(m + "xy");
            (out, Expect::Done(Out::Unit))
        }
        WriteFmt(i) => {
            let (h, m) = hm!(i);
            let r = quiet(|| write!(h, "{}{}", 7, "w").unwrap());
            write!(m, "{}{}", 7, "w").unwrap();
            (r.map(|_| Outcome::Done(Out::Unit)).unwrap_or_else(Outcome::Panic), Expect::Done(Out::Unit))
        }
        WriteFmtBad(i, kind) => {
            let (h, m) = hm!(i);
            let bad = BadDisplay(kind);
            let r = quiet(|| write!(h, "<{}>{}{}", 5, bad, "tail").is_ok());
            let e = quiet(|| write!(m, "<{}>{}{}", 5, bad, "tail").is_ok());
            (r.map(|b| Outcome::Done(Out::Fmt(b))).unwrap_or_else(Outcome::Panic), e.map(|b| Expect::Done(Out::Fmt(b))).unwrap_or(Expect::Panic))
        }
    }
}

/// A Display implementation that writes some text and then fails (kind 0) or panics (kind 1).
pub struct BadDisplay(pub u8);
impl std::fmt::Display for BadDisplay {
    fn fmt(&self, f: &mut std::fmt::Formatter<'_>) -> std::fmt::Result {
        f.write_str("[1|")?;
        if self.0 == 0 {
            Err(std::fmt::Error)
        } else {
            panic!("display panics")
        }
    }
}

/// Canonical, exact serialisation of the pool modulo addresses and slot order (DESIGN §4.3).
pub fn canonical_key(p: &Pool) -> Vec<u8> {
    // per-slot blob without buffer identity
    let k = p.k;
    let mut blobs: Vec<(Vec<u8>, usize /*heap ptr or 0*/)> = Vec::with_capacity(k);
    for i in 0..k {
        let mut b = Vec::with_capacity(48);
        let mut hp = 0usize;
        match p.s[i].h.as_ref() {
            None => b.push(0),
            Some(h) => match kind_of(h) {
                Kind::Inline => {
                    b.push(1);
                    b.extend_from_slice(&raw_of(h)[..std::mem::size_of::<LeanString>()]);
                }
                Kind::Static => {
                    b.push(2);
                    let (id, off) = texts(|t| t.static_id(h.as_ptr() as usize)).unwrap_or((255, 0));
                    b.push(id as u8);
                    b.extend_from_slice(&(off as u32).to_le_bytes());
                    b.extend_from_slice(&(h.len() as u32).to_le_bytes());
                }
                Kind::Heap => {
                    b.push(3);
                    let cap = h.capacity();
                    b.extend_from_slice(&(h.len() as u32).to_le_bytes());
                    b.extend_from_slice(&(cap as u32).to_le_bytes());
                    b.extend_from_slice(&(verif_hooks::refcount(h).unwrap_or(0) as u32).to_le_bytes());
                    hp = h.as_ptr() as usize;
                    // the whole buffer, stale tail included
                    let live = shim::with(|s| s.find(hp).map(|bi| s.blocks[bi].live).unwrap_or(false));
                    if live {
                        b.extend_from_slice(unsafe { std::slice::from_raw_parts(hp as *const u8, cap.min(1 << 16)) });
                    } else {
                        b.extend_from_slice(b"<dangling>");
                    }
                }
            },
        }
        blobs.push((b, hp));
    }
    let mut order: Vec<usize> = (0..k).collect();
    order.sort_by(|&a, &b| blobs[a].0.cmp(&blobs[b].0));
    // serialise with buffer ids by first occurrence; permute inside groups of equal blobs
    fn ser(order: &[usize], blobs: &[(Vec<u8>, usize)]) -> Vec<u8> {
        let mut out = Vec::with_capacity(128);
        let mut bufs: Vec<usize> = Vec::new();
        for &i in order {
            out.extend_from_slice(&(blobs[i].0.len() as u16).to_le_bytes());
            out.extend_from_slice(&blobs[i].0);
            if blobs[i].1 != 0 {
                let id = match bufs.iter().position(|&b| b == blobs[i].1) {
                    Some(x) => x,
                    None => {
                        bufs.push(blobs[i].1);
                        bufs.len() - 1
                    }
                };
                out.push(id as u8);
            }
        }
        out
    }
    let mut has_tie = false;
    for w in order.windows(2) {
        if blobs[w[0]].0 == blobs[w[1]].0 && blobs[w[0]].1 != 0 {
            has_tie = true;
        }
    }
    if !has_tie {
        return ser(&order, &blobs);
    }
    // enumerate permutations that keep blobs sorted (only ties are permuted)
    let mut best: Option<Vec<u8>> = None;
    fn rec(pos: usize, order: &mut Vec<usize>, blobs: &[(Vec<u8>, usize)], best: &mut Option<Vec<u8>>) {
        if pos == order.len() {
            let s = ser(order, blobs);
            if best.as_ref().is_none_or(|b| s < *b) {
                *best = Some(s);
            }
            return;
        }
        for j in pos..order.len() {
            if blobs[order[j]].0 != blobs[order[pos]].0 {
                break;
            }
            order.swap(pos, j);
            // keep sortedness: swapping equal blobs never breaks it
            rec(pos + 1, order, blobs, best);
            order.swap(pos, j);
        }
    }
    rec(0, &mut order, &blobs, &mut best);
    best.unwrap()
}

pub fn hash128(data: &[u8]) -> u128 {
    // SipHash-1-3 with fixed keys (DefaultHasher::new() is deterministic), two differently
    // prefixed lanes -> 128 bits
    use std::hash::Hasher;
    let mut h1 = std::collections::hash_map::DefaultHasher::new();
    h1.write_u64(0x6c73_7665_7269_6631);
    h1.write(data);
    let mut h2 = std::collections::hash_map::DefaultHasher::new();
    h2.write_u64(0x9e37_79b9_7f4a_7c15);
    h2.write(data);
    h2.write_u64(data.len() as u64);
    ((h1.finish() as u128) << 64) | h2.finish() as u128
}
