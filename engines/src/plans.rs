//! What each property's check explores (DESIGN §8), per tier.
use crate::explore::*;
use crate::pool::*;
use crate::probes::{self, FaultCfg, ProbeCtx, ProbeStats};
use crate::profiles;
use crate::report::Report;
use crate::sweeps::{self, SweepCtx};

pub fn level_of(prop: &str) -> &'static str {
    match prop {
        "C05" | "C18" => "fault_enumeration",
        _ => "model_checking",
    }
}

pub struct Env<'a> {
    pub part: Option<(usize, usize)>,
    pub seed: u64,
    pub prop: &'a str,
    pub tier: &'a str,
    pub threads: usize,
    pub budget: &'a Budget,
    pub findings: &'a Findings,
}

#[derive(Clone, Copy, PartialEq)]
pub enum Roots {
    Empty,
    Seeds,
}

/// One breadth-first exploration; returns the stored representative histories.
pub fn bfs(env: &Env, report: &mut Report, prof: &Profile, roots: Roots, depth: usize, props: Props, count_last: bool) -> Vec<Vec<History>> {
    let ex = Explorer { prof, props, threads: env.threads, findings: env.findings, budget: env.budget, close_rotations: props.c03, seed: env.seed, store_last: count_last && depth <= 4, part: env.part };
    let (r, name) = match roots {
        Roots::Empty => (vec![vec![]], "empty pool".to_string()),
        Roots::Seeds => {
            let s = profiles::seeds(prof);
            let n = s.len();
            (s, format!("{n} seed prefixes"))
        }
    };
    let res = ex.run(r, depth, count_last);
    report.add_run(prof, &name, depth, &res);
    res.stored
}

/// Harness self-check (thorough tier): the same exploration with another hand-out order and
/// another thread count must give identical per-level counts and digests; a difference means
/// the harness does not own all nondeterminism - a machinery error, never a verdict.
fn determinism_selfcheck(env: &Env, report: &mut Report, prof: &Profile, depth: usize) {
    let run = |threads: usize, seed: u64| {
        let scratch = Findings::default();
        let ex = Explorer { prof, props: Props::default(), threads, findings: &scratch, budget: env.budget, close_rotations: false, seed, store_last: false, part: None };
        ex.run(vec![vec![]], depth, true).levels.iter().map(|l| (l.new_states, l.transitions, l.digest)).collect::<Vec<_>>()
    };
    let a = run(env.threads, env.seed);
    let b = run((env.threads / 3).max(1), env.seed.wrapping_add(7919));
    if a != b {
        report.machinery_errors.push(format!("determinism self-check failed for profile {} depth {depth}: {a:?} vs {b:?}", prof.name));
    } else {
        report.bounds.push(format!("determinism self-check: profile {} to depth {depth} explored twice (different thread counts and hand-out orders) with identical per-level states/transitions/digests", prof.name));
    }
}

fn flatten(stored: &[Vec<History>], max_level: usize) -> Vec<History> {
    stored.iter().take(max_level + 1).flat_map(|l| l.iter().cloned()).collect()
}

fn common_assumptions(report: &mut Report) {
    report.assumptions.extend([
        "64-bit little-endian host (x86_64-unknown-linux-gnu), rustc 1.95; the 32-bit-only branches of the crate are compiled out of the native engine (C01, C03 and the thorough tiers of C06, C14, C20 add Miri-hosted runs for 32-bit and big-endian targets)".to_string(),
        "the shim allocator is the allocator: fresh addresses, always-moving realloc, refusal = null with the old block intact".to_string(),
        "state de-duplication uses a 128-bit SipHash of the exact canonical state (addresses and slot names removed); a hash collision could merge two states".to_string(),
        "engine built in release mode with debug-assertions on (the crate's own debug_assert!s are extra oracles)".to_string(),
    ]);
}

/// The build without debug assertions explores the largest profiles one level shallower (the two
/// builds together must fit the time a check may take): most of the thorough tier, and the
/// `wide-try` profile of C01's quick tier.
fn dd(d: usize) -> usize {
    if cfg!(debug_assertions) { d } else { d - 1 }
}

pub fn run_property(prop: &str, tier: &str, threads: usize, budget: &Budget, findings: &Findings, report: &mut Report) {
    let seed: u64 = std::env::var("VERIF_SEED").ok().and_then(|s| s.parse().ok()).unwrap_or(0);
    let part = std::env::var("LSVERIF_PART").ok().and_then(|s| {
        let (a, b) = s.split_once('/')?;
        Some((a.parse().ok()?, b.parse().ok()?))
    });
    let env = Env { part, seed, prop, tier, threads, budget, findings };
    let quick = tier == "quick";
    common_assumptions(report);
    let props = Props::only(prop);
    let wide = profiles::wide(Form::Plain);
    let wide_try = profiles::wide(Form::Try);
    let share = profiles::share();
    let statics = profiles::statics();
    let inline = profiles::inline_only();
    let index = profiles::index();
    report.bounds.push(format!("texts <= {} bytes before a growing operation; chars a/é/€/😀; inline limit {}", LMAX, INLINE));
    if std::env::var("LSVERIF_SHIM").is_ok_and(|m| m == "pageguard") {
        // page-guard pass: every heap block ends at an inaccessible page and becomes inaccessible
        // when released, so an out-of-bounds or dangling READ (invisible to the shadow heap's
        // audits) kills the process; the driver then pins the death on a case
        let d: usize = std::env::var("LSVERIF_DEPTH").ok().and_then(|s| s.parse().ok()).unwrap_or(3);
        report.rule = format!("page-guard pass: wide profile to depth {d}, every operation on every seed state, share profile to depth {d} - with the oracles of {prop}; every heap block of the crate is a mapping of its own ending at a PROT_NONE page, released blocks are PROT_NONE as a whole");
        bfs(&env, report, &wide, Roots::Empty, d, props, true);
        bfs(&env, report, &wide, Roots::Seeds, 1, props, true);
        bfs(&env, report, &share, Roots::Seeds, d, props, true);
        return;
    }
    if std::env::var("LSVERIF_HOSTED_PLAN").is_ok_and(|p| p == "big") {
        // texts around the largest length a heap handle stores inline (32-bit targets only)
        let d: usize = std::env::var("LSVERIF_DEPTH").ok().and_then(|s| s.parse().ok()).unwrap_or(1);
        report.rule = format!("big-length exploration: every sequence of at most {d} operations (push, push_str, pop, three truncations, clear, insert, insert_str, extend, remove, two reservations, two reservations that must be refused, two shrinks, drop, clone, clone_from) on two slots from {} roots (texts of B-2..=B+2 bytes; buffers of capacity B, B+1, B+3 holding nothing, 10 bytes, B-1 bytes or capacity-many bytes; borrowed static texts of B-1, B, B+1 bytes; B = {} is the largest length a heap handle stores in its own second word), next to a String model; oracles of {prop}: outcome, text, length, capacity, exact shrink, every block released once with its layout, nothing left allocated; distinct = distinct (root kind, last operation)", crate::big::roots().len(), crate::big::B);
        report.bounds.push(format!("target: {} bit, {} endian{}", usize::BITS, if cfg!(target_endian = "big") { "big" } else { "little" }, if std::env::var("LSVERIF_MIRI").is_ok() { " (executed by Miri)" } else { "" }));
        if !crate::big::applicable() {
            report.bounds.push("not applicable on this target: B = 2^56 - 2 cannot be reached".into());
            return;
        }
        let stats = ProbeStats::default();
        let (n, total) = crate::big::sweep(static_prop(prop), findings, &stats, d, env.part);
        report.bounds.push(format!("{n} of {total} cases executed by this part"));
        report.add_probe(stats.to_json("big-length", 0, true));
        return;
    }
    if std::env::var("LSVERIF_HOSTED_PLAN").is_ok_and(|p| p == "sizes") {
        // C06 hosted for a 32-bit target: there the size arithmetic is different code
        // (saturating additions against an allocation limit of isize::MAX, no 56-bit limit)
        report.rule = "size-argument probe hosted for this target: for every seed state and every state one constructor away from the empty pool, every live handle, every entry point (try_reserve / reserve / try_shrink_to / shrink_to / extend with a size hint as lower and as upper bound) and every n in SIZES (powers of two +-2 up to the word size, isize::MAX +-2, usize::MAX-2.., each minus the current length, len+-1, cap+-1); constructors with_capacity / try_with_capacity / collect with hint n; requests above 1 MiB are refused by the shim".into();
        report.bounds.push(format!("target: {} bit, {} endian{}", usize::BITS, if cfg!(target_endian = "big") { "big" } else { "little" }, if std::env::var("LSVERIF_MIRI").is_ok() { " (executed by Miri)" } else { "" }));
        // six seed states with every storage kind; every part walks all of them and takes its
        // share of the (handle, size, entry point) cases
        let seeds = profiles::seeds(&wide);
        let chosen: Vec<History> = [0usize, 3, 5, 10, 12, 16].iter().filter_map(|&i| seeds.get(i).cloned()).collect();
        report.bounds.push(format!("states: {} seed prefixes; reduced size set (2^k-1..2^k+1 for k in 16, 20, 23, 24, {}, {}; isize::MAX-1..+1; usize::MAX-1..; the last three minus the current length +-1; len+-1, cap+-1)", chosen.len(), usize::BITS - 2, usize::BITS - 1));
        let stats = ProbeStats::default();
        let cx = ProbeCtx { prof: &wide, findings, stats: &stats, heap_as: None, iso_as: None };
        let (done, complete) = for_each_state(&chosen, 1, budget, |h| probes::size_probe(&cx, h));
        if env.part.is_none_or(|(k, _)| k == 0) {
            probes::size_ctor_sweep(&cx);
        }
        report.add_probe(stats.to_json("size-arguments", done, complete));
        return;
    }
    if std::env::var("LSVERIF_MIRI").is_ok() && prop != "C20" {
        // Miri-hosted run of any property: the wide graph to the given depth with that
        // property's oracles (the interpreter is ~10^4 times slower than native code)
        let d: usize = std::env::var("LSVERIF_DEPTH").ok().and_then(|s| s.parse().ok()).unwrap_or(2);
        report.rule = format!("Miri-hosted: wide profile to depth {d} with the oracles of {prop}; Miri additionally stops at any undefined behaviour (out-of-bounds or dangling access, aliasing violation, uninitialised read) in the crate");
        report.bounds.push(format!("target: {} bit, {} endian (executed by Miri)", usize::BITS, if cfg!(target_endian = "big") { "big" } else { "little" }));
        if std::env::var("LSVERIF_HOSTED_PLAN").is_ok_and(|p| p == "seeds") {
            // every operation of the alphabet applied to every seed state (the seed prefixes
            // are validated step by step first): d levels from ~25 varied roots
            bfs(&env, report, &wide, Roots::Seeds, d, props, true);
            return;
        }
        bfs(&env, report, &wide, Roots::Empty, d, props, true);
        if env.part.is_none_or(|(k, _)| k == 0) {
            bfs(&env, report, &wide, Roots::Seeds, 0, props, true);
        }
        return;
    }
    match prop {
        "C01" => {
            report.rule = "every operation history over the profile's alphabet up to the stated depth, executed on the real crate next to a String model; a state is the exact canonical pool (raw inline bytes, whole heap buffers incl. stale tails, capacities, reference counts, sharing graph); distinct = distinct canonical state".into();
            let (dw, dt, ds, di, dsh, dst, dinl) = if quick { (4, dd(4), 3, 3, 4, 4, 5) } else { (dd(6), dd(5), dd(4), 3, 5, dd(6), 7) };
            if !quick {
                determinism_selfcheck(&env, report, &wide, 4);
            }
            bfs(&env, report, &wide, Roots::Empty, dw, props, dw <= 5);
            bfs(&env, report, &wide_try, Roots::Empty, dt, props, true);
            bfs(&env, report, &wide, Roots::Seeds, ds, props, true);
            bfs(&env, report, &index, Roots::Empty, di, props, true);
            bfs(&env, report, &share, Roots::Seeds, dsh, props, true);
            bfs(&env, report, &statics, Roots::Empty, dst, props, true);
            bfs(&env, report, &inline, Roots::Empty, dinl, props, true);
            let sp = sweeps::sweep_profile();
            let stats = ProbeStats::default();
            let scx = SweepCtx { prof: &sp, findings, stats: &stats };
            sweeps::c01_sweep(&scx, quick, threads);
            report.add_probe(stats.to_json("single-operation sweep: every 16th byte, long texts", 0, true));
        }
        "C02" => {
            report.rule = "same graph as C01 incl. failing and panicking operations; oracle: every handle that is not the target of the step is bit-identical (text, length, pointer, capacity, raw words) before and after; 'static bytes pristine; sentinels around every handle intact".into();
            let (dw, ds, dsh, dst) = if quick { (4, 3, 4, 4) } else { (5, dd(4), dd(6), dd(6)) };
            bfs(&env, report, &wide, Roots::Empty, dw, props, true);
            bfs(&env, report, &wide, Roots::Seeds, ds, props, true);
            bfs(&env, report, &share, Roots::Seeds, dsh, props, true);
            bfs(&env, report, &statics, Roots::Empty, dst, props, true);
            // "successful, failing or panicking": the isolation predicate under refused
            // allocations and panicking callbacks (the deviation passes of C05 / C18)
            deviation_passes(&env, report, &wide, if quick { 2 } else { 3 }, None, Some("C02"));
        }
        "C03" => {
            report.rule = "same graph as C01 with operations that fail without fault injection (huge reservations, huge size hints, bad indices, panicking predicates); shadow heap checked after every step (refcount == live handles, live blocks == referenced buffers, no access outside a live block, layouts repeated, guards and poison intact); every new state is closed in all K rotation orders and must leave zero live blocks".into();
            let (dw, dt, ds, dsh, dst) = if quick { (4, 3, 3, 4, 4) } else { (5, dd(5), dd(4), dd(6), dd(6)) };
            bfs(&env, report, &wide, Roots::Empty, dw, props, true);
            bfs(&env, report, &wide_try, Roots::Empty, dt, props, true);
            bfs(&env, report, &wide, Roots::Seeds, ds, props, true);
            bfs(&env, report, &share, Roots::Seeds, dsh, props, true);
            bfs(&env, report, &statics, Roots::Empty, dst, props, true);
            // histories whose operations fail because the allocator refuses, or whose callbacks
            // panic: the same shadow-heap accounting (the deviation passes of C05 / C18)
            deviation_passes(&env, report, &wide, if quick { 2 } else { 3 }, Some("C03"), None);
        }
        "C05" => {
            report.rule = "for every stored state of the explored graph, every enabled operation in both forms (plain / try_), every allocator request k the operation issues is refused in turn (1 deviation); second refusals inside the same call and in every follow-up operation (2 deviations); distinct = distinct (operation, target storage, form, outcome class)".into();
            // pairs (two refusals, the second one in a follow-up operation) up to depth dp;
            // single refusals + in-call second refusals + follow-ups up to depth dw
            let (dw, dp, ds) = if quick { (3, 2, 0) } else { (dd(4), 2, 1) };
            let stored = bfs(&env, report, &wide, Roots::Empty, dw, Props::default(), true);
            let mut shallow = flatten(&stored, dp);
            let deep: Vec<History> = stored.iter().skip(dp + 1).flat_map(|l| l.iter().cloned()).collect();
            let s2 = bfs(&env, report, &wide, Roots::Seeds, ds, Props::default(), true);
            shallow.extend(flatten(&s2, ds));
            let stats = ProbeStats::default();
            let cx = ProbeCtx { prof: &wide, findings, stats: &stats, heap_as: None, iso_as: None };
            let cfg = FaultCfg { followups: true, pairs: true };
            let (done, complete) = for_each_state(&shallow, threads, budget, |h| probes::fault_probe(&cx, h, &cfg));
            report.add_probe(stats.to_json("allocation-refusal (1 and 2 deviations)", done, complete));
            let stats = ProbeStats::default();
            let cx = ProbeCtx { prof: &wide, findings, stats: &stats, heap_as: None, iso_as: None };
            let cfg = FaultCfg { followups: true, pairs: false };
            let (done, complete) = for_each_state(&deep, threads, budget, |h| probes::fault_probe(&cx, h, &cfg));
            report.add_probe(stats.to_json("allocation-refusal (1 deviation + in-call second refusal)", done, complete));
            report.bounds.push(format!("fault probe: every state of wide up to depth {dw} (+ seeds): single refusals, second refusals inside the same call, every follow-up operation; up to depth {dp} additionally a second refusal in every follow-up operation"));
        }
        "C06" => {
            report.rule = "for every stored state and every live handle: try_reserve / reserve / try_shrink_to / shrink_to / extend(iterator with size_hint lower bound n yielding 0-2 items) for every n in SIZES (powers of two +-2, the 56-bit limit +-3, isize::MAX +-2, usize::MAX-2.., each minus the current length, len+-1, cap+-1); state-independent: try_with_capacity / with_capacity / collect with hint n; requests above 1 MiB are refused by the shim; distinct = distinct (entry point, target storage, outcome)".into();
            let (dw, ds) = if quick { (2, 0) } else { (3, 1) };
            let stored = bfs(&env, report, &wide, Roots::Empty, dw, Props::default(), true);
            let mut states = flatten(&stored, dw);
            states.extend(flatten(&bfs(&env, report, &wide, Roots::Seeds, ds, Props::default(), true), ds));
            let stats = ProbeStats::default();
            let cx = ProbeCtx { prof: &wide, findings, stats: &stats, heap_as: None, iso_as: None };
            let (done, complete) = for_each_state(&states, threads, budget, |h| probes::size_probe(&cx, h));
            probes::size_ctor_sweep(&cx);
            report.add_probe(stats.to_json("size-arguments", done, complete));
            report.bounds.push(format!("size probe: states up to depth {dw} of wide + seeds; about {} size values per handle; giant threshold 1 MiB", probes::size_values(20, 30).len()));
        }
        "C07" => {
            report.rule = "(a) for every stored state and every live handle: insert / insert_str / insert_str(\"\") / remove / truncate and their try_ forms at every byte index 0..=len+2, String as the reference for accept/panic; a rejected call must leave the exact canonical pool unchanged and issue no allocator request; (b) every text over the four character widths up to the stated length in 7 storage states (inline, static, static truncated, heap exact/spare, heap shared equal/shorter) x the same operations x every index".into();
            let (dw, di) = if quick { (3, 3) } else { (dd(4), 3) };
            let stored = bfs(&env, report, &wide, Roots::Empty, dw, Props::default(), true);
            let mut states = flatten(&stored, dw);
            states.extend(flatten(&bfs(&env, report, &wide, Roots::Seeds, 0, Props::default(), true), 0));
            let stats = ProbeStats::default();
            let cx = ProbeCtx { prof: &wide, findings, stats: &stats, heap_as: None, iso_as: None };
            let (done, complete) = for_each_state(&states, threads, budget, |h| probes::index_probe(&cx, h));
            report.add_probe(stats.to_json("every-index/wide-states", done, complete));
            let stored = bfs(&env, report, &index, Roots::Empty, di, Props::only("C01"), true);
            let states = flatten(&stored, di.min(2));
            let stats = ProbeStats::default();
            let cx = ProbeCtx { prof: &index, findings, stats: &stats, heap_as: None, iso_as: None };
            let (done, complete) = for_each_state(&states, threads, budget, |h| probes::index_probe(&cx, h));
            report.add_probe(stats.to_json("every-index/index-states", done, complete));
            let sp = sweeps::sweep_profile();
            let stats = ProbeStats::default();
            let scx = SweepCtx { prof: &sp, findings, stats: &stats };
            sweeps::c07_text_sweep(&scx, quick, threads);
            report.add_probe(stats.to_json("every-index/text-sweep", 0, true));
        }
        "C08" => {
            report.rule = "every clone / clone_from / assignment / From<&LeanString> / to_lean_string(LeanString) transition of the explored graph: zero allocator requests, same pointer (heap, static) or bitwise copy (inline), reference count +1, exactly the one expected release for clone_from; plus a sweep over lengths 0..=80,100,1000,4096(,65536,1 MiB) x 7 storage states x 5 cloning methods x clone counts x 3 drop orders".into();
            let (dw, ds, dsh) = if quick { (4, 3, 4) } else { (5, dd(4), dd(6)) };
            bfs(&env, report, &wide, Roots::Empty, dw, props, true);
            bfs(&env, report, &wide, Roots::Seeds, ds, props, true);
            bfs(&env, report, &share, Roots::Seeds, dsh, props, true);
            let sp = sweeps::sweep_profile();
            let stats = ProbeStats::default();
            let scx = SweepCtx { prof: &sp, findings, stats: &stats };
            sweeps::c08_sweep(&scx, quick, threads);
            report.add_probe(stats.to_json("clone-sweep", 0, true));
        }
        "C09" => {
            report.rule = "inline profile: every history of edits that keeps the text within the inline limit (K=2) - no allocator request, storage stays inline; every constructor transition of the wide graph; constructor sweep: every text over the four widths up to the stated length, every possible 16th byte (192 x 3 shapes + 128 ASCII), lengths 17..=80/100/1000/65536 through 15 constructors; every char; both bools; every digit count of every integer type".into();
            let (dinl, dw) = if quick { (6, 4) } else { (dd(8), dd(5)) };
            bfs(&env, report, &inline, Roots::Empty, dinl, props, true);
            bfs(&env, report, &wide, Roots::Empty, dw, props, true);
            bfs(&env, report, &wide_try, Roots::Empty, dw, props, true);
            let sp = sweeps::sweep_profile();
            let stats = ProbeStats::default();
            let scx = SweepCtx { prof: &sp, findings, stats: &stats };
            sweeps::c09_sweep(&scx, quick, threads);
            report.add_probe(stats.to_json("constructor-sweep", 0, true));
        }
        "C10" => {
            report.rule = "static profile: every history over handles built by from_static_str (texts of 16, 17 and 40 bytes with mixed widths) plus one heap text; after every step the harness-owned writable 'static buffers are compared with pristine copies; from_static_str / clone / pop / truncate / clear must issue no allocator request and keep pointing at the caller's bytes".into();
            let (dst, dw, ds) = if quick { (5, 4, 3) } else { (dd(7), dd(5), dd(4)) };
            bfs(&env, report, &statics, Roots::Empty, dst, props, true);
            bfs(&env, report, &statics, Roots::Seeds, ds, props, true);
            bfs(&env, report, &wide, Roots::Empty, dw, props, true);
            bfs(&env, report, &wide, Roots::Seeds, ds, props, true);
        }
        "C11" => {
            report.rule = "every transition of the explored graph: capacity >= len for every handle; with_capacity(n) >= n; successful reserve(n): capacity >= len+n and storage exclusively owned; appends/inserts that fit the capacity reported just before on an exclusively owned target: zero allocator requests and the text does not move".into();
            let (dw, dt, ds, dsh) = if quick { (4, 4, 3, 4) } else { (5, dd(5), dd(4), dd(6)) };
            bfs(&env, report, &wide, Roots::Empty, dw, props, true);
            bfs(&env, report, &wide_try, Roots::Empty, dt, props, true);
            bfs(&env, report, &wide, Roots::Seeds, ds, props, true);
            bfs(&env, report, &share, Roots::Seeds, dsh, props, true);
        }
        "C12" => {
            report.rule = "every growth event (single-reservation operation with old_len + additional > old_capacity whose result is a heap buffer) of the explored graph: old_len + old_len/2 <= new_capacity <= max(old_len + old_len/2, old_len + additional); sweep reserve/push_str/insert_str of 1..=N bytes on lengths 0..=N in 7 storage states; four push-one-char loops observing every prefix: allocator requests never exceed the slowest growth the statement permits, bytes copied <= 3*n*w+64".into();
            let (dw, ds, dst) = if quick { (4, 3, 4) } else { (5, dd(4), dd(6)) };
            bfs(&env, report, &wide, Roots::Empty, dw, props, true);
            bfs(&env, report, &wide, Roots::Seeds, ds, props, true);
            bfs(&env, report, &statics, Roots::Empty, dst, props, true);
            let sp = sweeps::sweep_profile();
            let stats = ProbeStats::default();
            let scx = SweepCtx { prof: &sp, findings, stats: &stats };
            sweeps::c12_sweep(&scx, quick, threads);
            report.add_probe(stats.to_json("growth-sweep", 0, true));
            // growth events of calls that complete although the allocator refused a request
            fault_pass(&env, report, &wide, if quick { 2 } else { 3 });
        }
        "C13" => {
            report.rule = "every shrink_to / shrink_to_fit transition of the explored graph, and for every stored state and every live handle: shrink_to_fit and shrink_to(m) for every m in 0..=capacity+2 and every m of C06's SIZES, both forms; oracle = the statement's capacity algebra, texts of all handles unchanged, other handles untouched".into();
            let (dw, dp, dsh) = if quick { (4, 3, 4) } else { (4, dd(4), dd(6)) };
            let stored = bfs(&env, report, &wide, Roots::Empty, dw, props, true);
            bfs(&env, report, &share, Roots::Seeds, dsh, props, true);
            let mut states = flatten(&stored, dp);
            states.extend(flatten(&bfs(&env, report, &wide, Roots::Seeds, 0, Props::default(), true), 0));
            let stats = ProbeStats::default();
            let cx = ProbeCtx { prof: &wide, findings, stats: &stats, heap_as: None, iso_as: None };
            let (done, complete) = for_each_state(&states, threads, budget, |h| probes::shrink_probe(&cx, h));
            report.add_probe(stats.to_json("every-m", done, complete));
            // shrinks whose allocator requests are refused (singly): the same capacity algebra
            fault_pass(&env, report, &wide, if quick { 2 } else { 3 });
            fault_pass(&env, report, &share, if quick { 2 } else { 3 });
        }
        "C17" => {
            report.rule = "in every state of the explored graph: all ordered pairs of live handles (==, !=, cmp, partial_cmp, <, >=, Hash with a fixed-key hasher) and every handle against str/&str/String/Cow in both orders, Display/Debug/padding, Borrow/AsRef/Deref, HashMap/BTreeMap lookups by &str and iteration order, all compared with the same operations on the model strs; representation zoo: texts x 9 construction routes, all pairs".into();
            let (dw, ds, dsh) = if quick { (4, 2, 4) } else { (dd(5), 3, dd(6)) };
            bfs(&env, report, &wide, Roots::Empty, dw, props, true);
            bfs(&env, report, &wide, Roots::Seeds, ds, props, true);
            bfs(&env, report, &share, Roots::Seeds, dsh, props, true);
            let sp = sweeps::sweep_profile();
            let stats = ProbeStats::default();
            let scx = SweepCtx { prof: &sp, findings, stats: &stats };
            sweeps::c17_zoo(&scx, quick, threads);
            report.add_probe(stats.to_json("representation-zoo", 0, true));
        }
        "C20" => {
            report.rule = "the wide graph explored by this very build configuration (features x profile are fixed at compile time; the driver builds and runs six of them plus the main engine build and compares states/transitions/digest per level), with the C01+C02+C03 oracles on and, in every visited state, for every handle: last byte in 0x00..=0xD1 and different from the byte the compiler stores for None::<LeanString>, Some(clone) round-trips; compile-time layout facts; every possible 16th byte of a full inline string and heap/static strings of many lengths through the Option round trip".into();
            let d: usize = std::env::var("LSVERIF_DEPTH").ok().and_then(|s| s.parse().ok()).unwrap_or(if quick { 3 } else { 4 });
            report.bounds.push(format!("configuration: debug_assertions={} features: std={} serde={} arbitrary={}", cfg!(debug_assertions), cfg!(feature = "ls-std") || cfg!(feature = "ls-all"), cfg!(feature = "ls-all"), cfg!(feature = "ls-all")));
            // compile-time facts, asserted at run time so that a failure is a finding, not a build error
            let w = std::mem::size_of::<usize>();
            let facts = [
                ("size_of::<LeanString>() == 2 words", std::mem::size_of::<lean_string::LeanString>() == 2 * w),
                ("size_of::<Option<LeanString>>() == 2 words", std::mem::size_of::<Option<lean_string::LeanString>>() == 2 * w),
                ("align_of::<LeanString>() == align_of::<usize>()", std::mem::align_of::<lean_string::LeanString>() == std::mem::align_of::<usize>()),
                ("align_of::<Option<LeanString>>() == align_of::<usize>()", std::mem::align_of::<Option<lean_string::LeanString>>() == std::mem::align_of::<usize>()),
            ];
            let sp = sweeps::sweep_profile();
            for (name, ok) in facts {
                if !ok {
                    findings.add(&sp, &[], &crate::oracle::Viol { prop: "C20", oracle: "layout", detail: format!("{name} does not hold") }, "layout", "-", name);
                }
            }
            let hosted = std::env::var("LSVERIF_MIRI").is_ok();
            if !hosted {
                // conversions are behaviour too: one digest over the texts this configuration produces
                // for a fixed family of integers, floats, chars, bools and decoder inputs; the driver
                // compares it across configurations
                let (n, d) = conversion_digest();
                report.bounds.push(format!("conversion digest over {n} values: {d:032x}"));
                report.extra.insert("conversion_digest".into(), serde_json::json!(format!("{d:032x}")));
                report.extra.insert("conversion_values".into(), serde_json::json!(n));
            }
            report.bounds.push(format!("target: {} bit, {} endian{}", usize::BITS, if cfg!(target_endian = "big") { "big" } else { "little" }, if hosted { " (executed by Miri)" } else { "" }));
            bfs(&env, report, &wide, Roots::Empty, d, props, true);
            if !hosted || env.part.is_none_or(|(k, _)| k == 0) {
                bfs(&env, report, &wide, Roots::Seeds, if hosted { 0 } else { 1 }, props, true);
            }
            let stats = ProbeStats::default();
            let scx = SweepCtx { prof: &sp, findings, stats: &stats };
            if !hosted || env.part.is_none_or(|(k, _)| k == 1) {
                sweeps::c20_sweep(&scx, quick || hosted);
            }
            if hosted {
                // single operations on long texts (around 256 and 4 KiB bytes: lengths that need
                // the second length byte, which only a byte-order or word-size mistake gets
                // wrong) and on full inline strings, in every storage state, against String;
                // the texts are dealt out to the parts
                sweeps::c01_sweep_as(&scx, "C20", true, Some(env.part.unwrap_or((0, 1))), 1);
            }
            report.add_probe(stats.to_json("niche-sweep", 0, true));
        }
        "C18" => {
            report.rule = "for every stored state: retain / try_retain with each of 4 predicates panicking at its k-th call (every k); extend with 7 item kinds x {honest, zero} size hints with next() panicking at its k-th call (every k up to items+1); collect with the same iterators; to_lean_string / try_to_lean_string on a Display that panics after j pieces; reference = String under the same callback; afterwards all other handles unchanged, reference counts consistent, closing leaves zero live blocks; distinct = distinct (call, target storage, outcome)".into();
            let (dw, ds) = if quick { (3, 0) } else { (dd(4), 1) };
            let stored = bfs(&env, report, &wide, Roots::Empty, dw, Props::default(), true);
            let mut states = flatten(&stored, dw);
            states.extend(flatten(&bfs(&env, report, &wide, Roots::Seeds, ds, Props::default(), true), ds));
            let stats = ProbeStats::default();
            let cx = ProbeCtx { prof: &wide, findings, stats: &stats, heap_as: None, iso_as: None };
            let (done, complete) = for_each_state(&states, threads, budget, |h| probes::panic_probe(&cx, h));
            report.add_probe(stats.to_json("callback-panics", done, complete));
        }
        _ => {
            report.machinery_errors.push(format!("seqmc has no plan for property {prop}"));
        }
    }
}

/// Texts of a fixed family of values through every conversion, hashed (C20: must not depend on the
/// build configuration).
fn conversion_digest() -> (u64, u128) {
    use lean_string::{LeanString, ToLeanString};
    let mut acc: Vec<u8> = Vec::with_capacity(1 << 22);
    let mut n = 0u64;
    let mut put = |s: &LeanString| {
        acc.extend_from_slice(s.as_bytes());
        acc.push(0xff);
    };
    for k in 0..128u32 {
        for d in [-1i128, 0, 1] {
            let v = (1i128 << k.min(126)) + d;
            put(&v.to_lean_string());
            put(&(-v).to_lean_string());
            put(&(v as i64).to_lean_string());
            put(&(v as u64).to_lean_string());
            put(&(v as i32).to_lean_string());
            put(&(v as u16).to_lean_string());
            put(&(v as i8).to_lean_string());
            put(&(v as isize).to_lean_string());
            put(&(v as u128).to_lean_string());
            n += 9;
        }
    }
    let mut p: i128 = 1;
    for _ in 0..38 {
        for d in [-1i128, 0, 1] {
            let v = p + d;
            put(&v.to_lean_string());
            put(&(v as i64).to_lean_string());
            put(&(v as u64).to_lean_string());
            put(&(-(v as i64)).to_lean_string());
            n += 4;
        }
        p *= 10;
    }
    let mants64: [u64; 12] = [0, 1, 2, (1 << 52) - 1, 1 << 51, 1 << 50, 3 << 50, 0x5555555555555, 0xAAAAAAAAAAAAA, 1 << 30, (1 << 31) + 1, 0x123456789ABCD];
    for se in 0..4096u64 {
        for m in mants64 {
            put(&f64::from_bits((se << 52) | m).to_lean_string());
            n += 1;
        }
    }
    let mants32: [u32; 8] = [0, 1, 0x7FFFFF, 0x400000, 0x200000, 0x555555, 0x2AAAAA, 0x12345];
    for se in 0..512u32 {
        for m in mants32 {
            put(&f32::from_bits((se << 23) | m).to_lean_string());
            n += 1;
        }
    }
    for e in -30..=40 {
        for lead in ["1", "9", "1.5", "123456789", "9007199254740993", "0.1"] {
            if let Ok(f) = format!("{lead}e{e}").parse::<f64>() {
                put(&f.to_lean_string());
                put(&(f as f32).to_lean_string());
                put(&(-f).to_lean_string());
                n += 3;
            }
        }
    }
    for u in (0..0x110000u32).step_by(97) {
        if let Some(c) = char::from_u32(u) {
            put(&c.to_lean_string());
            put(&LeanString::from(c));
            n += 2;
        }
    }
    put(&true.to_lean_string());
    put(&false.to_lean_string());
    let alpha: [u8; 8] = [0x41, 0x80, 0xBF, 0xC2, 0xE0, 0xED, 0xF0, 0xF4];
    for code in 0..8usize.pow(4) {
        let b: Vec<u8> = (0..4).map(|i| alpha[(code >> (3 * i)) & 7]).collect();
        put(&LeanString::from_utf8_lossy(&b));
        let u: Vec<u16> = b.iter().map(|&x| if x >= 0xE0 { 0xD800 + x as u16 } else { x as u16 }).collect();
        put(&LeanString::from_utf16_lossy(&u));
        n += 2;
    }
    (n, hash128(&acc))
}

/// Runs the allocation-refusal and callback-panic probes over every stored state up to
/// `depth`, attributing heap-accounting / isolation violations to the given property.
fn deviation_passes(env: &Env, report: &mut Report, prof: &Profile, depth: usize, heap_as: Option<&'static str>, iso_as: Option<&'static str>) {
    let stored = bfs(env, report, prof, Roots::Empty, depth, Props::default(), true);
    let mut states = flatten(&stored, depth);
    states.extend(flatten(&bfs(env, report, prof, Roots::Seeds, 0, Props::default(), true), 0));
    let stats = ProbeStats::default();
    let cx = ProbeCtx { prof, findings: env.findings, stats: &stats, heap_as, iso_as };
    let cfg = FaultCfg { followups: true, pairs: false };
    let (done, complete) = for_each_state(&states, env.threads, env.budget, |h| probes::fault_probe(&cx, h, &cfg));
    report.add_probe(stats.to_json("allocation-refusal", done, complete));
    let stats = ProbeStats::default();
    let cx = ProbeCtx { prof, findings: env.findings, stats: &stats, heap_as, iso_as };
    let (done, complete) = for_each_state(&states, env.threads, env.budget, |h| probes::panic_probe(&cx, h));
    report.add_probe(stats.to_json("callback-panics", done, complete));
}

/// Allocation-refusal pass (single refusals + follow-ups) over every stored state up to `depth`;
/// used by properties whose statement also covers calls that meet a refusing allocator.
fn fault_pass(env: &Env, report: &mut Report, prof: &Profile, depth: usize) {
    let stored = bfs(env, report, prof, if prof.name == "share" { Roots::Seeds } else { Roots::Empty }, depth, Props::default(), true);
    let mut states = flatten(&stored, depth);
    if prof.name != "share" {
        states.extend(flatten(&bfs(env, report, prof, Roots::Seeds, 0, Props::default(), true), 0));
    }
    let stats = ProbeStats::default();
    let cx = ProbeCtx { prof, findings: env.findings, stats: &stats, heap_as: None, iso_as: None };
    let cfg = FaultCfg { followups: false, pairs: false };
    let (done, complete) = for_each_state(&states, env.threads, env.budget, |h| probes::fault_probe(&cx, h, &cfg));
    report.add_probe(stats.to_json(&format!("allocation-refusal/{}", prof.name), done, complete));
}

pub fn static_prop(prop: &str) -> &'static str {
    const ALL: [&str; 20] = ["C01", "C02", "C03", "C04", "C05", "C06", "C07", "C08", "C09", "C10", "C11", "C12", "C13", "C14", "C15", "C16", "C17", "C18", "C19", "C20"];
    ALL.iter().find(|p| **p == prop).copied().unwrap_or("C00")
}

pub fn profile_by_name(name: &str) -> Option<Profile> {
    Some(match name {
        "wide" => profiles::wide(Form::Plain),
        "wide-try" => profiles::wide(Form::Try),
        "share" => profiles::share(),
        "static" => profiles::statics(),
        "inline" => profiles::inline_only(),
        "index" => profiles::index(),
        _ => return None,
    })
}

/// Re-executes the case behind a finding and reports whether the same signature shows up again.
/// `verbose` prints the step trace (used by `./check replay`).
pub fn reproduce(prop: &str, sig: &str, profile: &str, history: &[String], extra: &str, verbose: bool, quick: bool) -> Result<bool, String> {
    let findings = Findings::default();
    let stats = ProbeStats::default();
    let heap_as = if prop == "C03" { Some("C03") } else { None };
    let iso_as = if prop == "C02" { Some("C02") } else { None };
    if profile == "big" {
        crate::big::replay(static_prop(prop), &findings, extra, verbose)?;
    } else if profile == "sweep" {
        let sp = sweeps::sweep_profile();
        let scx = SweepCtx { prof: &sp, findings: &findings, stats: &stats };
        let threads = std::thread::available_parallelism().map(|n| n.get()).unwrap_or(4);
        match prop {
            "C01" => sweeps::c01_sweep(&scx, quick, threads),
            "C07" => sweeps::c07_text_sweep(&scx, quick, threads),
            "C08" => sweeps::c08_sweep(&scx, quick, threads),
            "C09" => sweeps::c09_sweep(&scx, quick, threads),
            "C12" => sweeps::c12_sweep(&scx, quick, threads),
            "C17" => sweeps::c17_zoo(&scx, quick, threads),
            "C20" => {
                sweeps::c20_sweep(&scx, quick);
                if std::env::var("LSVERIF_MIRI").is_ok() {
                    // the hosted C20 run also deals the single-operation sweep out to its parts
                    let part = std::env::var("LSVERIF_PART").ok().and_then(|s| {
                        let (a, b) = s.split_once('/')?;
                        Some((a.parse().ok()?, b.parse().ok()?))
                    });
                    sweeps::c01_sweep_as(&scx, "C20", true, Some(part.unwrap_or((0, 1))), 1);
                }
            }
            _ => return Err(format!("no sweep to replay for {prop}")),
        }
        if verbose {
            println!("re-ran the sweep of {prop} (quick={quick})");
        }
    } else {
        let prof = profile_by_name(profile).ok_or_else(|| format!("unknown profile {profile}"))?;
        let mut hist = Vec::new();
        for s in history {
            match prof.table.iter().position(|o| format!("{o:?}") == *s) {
                Some(i) => hist.push(i as OpId),
                None => return Err(format!("operation {s} is not in profile {}", prof.name)),
            }
        }
        crate::shim::with(|s| s.reset());
        let mut p = Pool::new(prof.k);
        for (n, &id) in hist.iter().enumerate() {
            let op = prof.table[id as usize];
            let rec = crate::oracle::step(&mut p, op, prof.form);
            let mut viols = Vec::new();
            step_oracles(&Props::all(), &rec, &p, &mut viols);
            if verbose {
                println!("step {:>2} {:<28} -> {:?}   requests={} frees={}", n + 1, format!("{op:?}"), rec.lean, rec.d.requests, rec.d.frees);
                for i in 0..p.k {
                    if let Some(o) = &rec.post[i] {
                        println!("          slot {i}: {:?} len={} cap={} rc={} text={:?}", o.kind, o.len, o.cap, o.rc, String::from_utf8_lossy(&o.text));
                    }
                }
            }
            let tk = crate::oracle::target_kind(&rec);
            for e in &viols {
                if verbose {
                    println!("          VIOLATED {}/{}: {}", e.prop, e.oracle, e.detail);
                }
                findings.add(&prof, &hist[..=n], e, op.kind_name(), tk, "");
            }
        }
        if extra.is_empty() {
            // closing orders and state oracles of the final state
            let mut viols = Vec::new();
            let _ = quiet(|| p.close(0));
            crate::oracle::c03_closed("close(rotation 0)", &mut viols);
            for rot in 1..prof.k {
                let mut p = replay(&prof, &hist);
                let _ = quiet(|| p.close(rot));
                crate::oracle::c03_closed(&format!("close(rotation {rot})"), &mut viols);
            }
            let p = replay(&prof, &hist);
            let _ = quiet(|| crate::oracle::c17_state(&p, "state", &mut viols));
            let _ = quiet(|| crate::oracle::c20_state(&p, "state", &mut viols));
            for e in &viols {
                if verbose {
                    println!("          VIOLATED {}/{}: {}", e.prop, e.oracle, e.detail);
                }
                // the engine files these under the last operation or under "state"
                let lastop = hist.last().map(|&i| prof.table[i as usize].kind_name()).unwrap_or("state");
                findings.add(&prof, &hist, e, lastop, "*", "");
                findings.add(&prof, &hist, e, "state", "-", "");
            }
        } else {
            let _ = quiet(|| drop(p));
            if verbose {
                println!("probe case: {extra}");
            }
            let cx = ProbeCtx { prof: &prof, findings: &findings, stats: &stats, heap_as, iso_as };
            probes::replay_case(&cx, &hist, extra);
        }
    }
    // signature = prop/oracle/op/target; the close-out findings are matched without the target
    let parts: Vec<&str> = sig.split('/').collect();
    let m = findings.map.lock().unwrap();
    let hit = m.keys().any(|k| {
        let kp: Vec<&str> = k.split('/').collect();
        k == sig || (kp.len() == 4 && parts.len() == 4 && kp[0] == parts[0] && kp[1] == parts[1] && kp[2] == parts[2] && kp[3] == "*")
    });
    if verbose {
        for f in m.values() {
            if f.sig == sig {
                println!("REPRODUCED {}: {}", f.sig, f.detail);
            }
        }
    }
    Ok(hit)
}

/// `./check replay <file>`
pub fn replay_file(path: &str) -> i32 {
    let txt = match std::fs::read_to_string(path) {
        Ok(t) => t,
        Err(e) => {
            eprintln!("cannot read {path}: {e}");
            return 2;
        }
    };
    let v: serde_json::Value = match serde_json::from_str(&txt) {
        Ok(v) => v,
        Err(e) => {
            eprintln!("bad replay file: {e}");
            return 2;
        }
    };
    let hist: Vec<String> = v["history"].as_array().cloned().unwrap_or_default().iter().map(|s| s.as_str().unwrap_or("").to_string()).collect();
    let sig = v["signature"].as_str().unwrap_or("");
    let prop = v["property"].as_str().unwrap_or("");
    println!("replaying {path} ({sig}), property {prop}");
    let crash = v["crash"].as_bool() == Some(true);
    match reproduce(prop, sig, v["profile"].as_str().unwrap_or(""), &hist, v["extra"].as_str().unwrap_or(""), true, v["tier"].as_str() != Some("thorough")) {
        Ok(true) => {
            println!("violation reproduced");
            1
        }
        Ok(false) => {
            println!("{}", if crash { "the process survived this case: the recorded death did not reproduce" } else { "no violation with this signature" });
            0
        }
        Err(e) => {
            eprintln!("{e}");
            2
        }
    }
}
