//! What each property's check explores (DESIGN §8), per tier.
use crate::explore::*;
use crate::pool::*;
use crate::probes::{self, FaultCfg, ProbeCtx, ProbeStats};
use crate::profiles;
use crate::report::Report;

pub fn level_of(prop: &str) -> &'static str {
    match prop {
        "C05" | "C18" => "fault_enumeration",
        _ => "model_checking",
    }
}

pub struct Env<'a> {
    pub prop: &'a str,
    pub tier: &'a str,
    pub threads: usize,
    pub budget: &'a Budget,
    pub findings: &'a Findings,
}

#[derive(Clone, Copy, PartialEq)]
pub enum Roots {
    Empty,
    Seeds,
}

/// One breadth-first exploration; returns the stored representative histories.
pub fn bfs(env: &Env, report: &mut Report, prof: &Profile, roots: Roots, depth: usize, props: Props, count_last: bool) -> Vec<Vec<History>> {
    let ex = Explorer { prof, props, threads: env.threads, findings: env.findings, budget: env.budget, close_rotations: props.c03 };
    let (r, name) = match roots {
        Roots::Empty => (vec![vec![]], "empty pool".to_string()),
        Roots::Seeds => {
            let s = profiles::seeds(prof);
            let n = s.len();
            (s, format!("{n} seed prefixes"))
        }
    };
    let res = ex.run(r, depth, count_last);
    report.add_run(prof, &name, depth, &res);
    res.stored
}

fn flatten(stored: &[Vec<History>], max_level: usize) -> Vec<History> {
    stored.iter().take(max_level + 1).flat_map(|l| l.iter().cloned()).collect()
}

fn common_assumptions(report: &mut Report) {
    report.assumptions.extend([
        "64-bit little-endian host (x86_64-unknown-linux-gnu), rustc 1.95; the 32-bit-only branches of the crate are compiled out".to_string(),
        "the shim allocator is the allocator: fresh addresses, always-moving realloc, refusal = null with the old block intact".to_string(),
        "state de-duplication uses a 128-bit SipHash of the exact canonical state (addresses and slot names removed); a hash collision could merge two states".to_string(),
        "engine built in release mode with debug-assertions on (the crate's own debug_assert!s are extra oracles)".to_string(),
    ]);
}

pub fn run_property(prop: &str, tier: &str, threads: usize, budget: &Budget, findings: &Findings, report: &mut Report) {
    let env = Env { prop, tier, threads, budget, findings };
    let quick = tier == "quick";
    common_assumptions(report);
    let props = Props::only(prop);
    let wide = profiles::wide(Form::Plain);
    let wide_try = profiles::wide(Form::Try);
    let share = profiles::share();
    let statics = profiles::statics();
    let inline = profiles::inline_only();
    let index = profiles::index();
    report.bounds.push(format!("texts <= {} bytes before a growing operation; chars a/é/€/😀; inline limit {}", LMAX, INLINE));
    match prop {
        "C01" => {
            report.rule = "every operation history over the profile's alphabet up to the stated depth, executed on the real crate next to a String model; a state is the exact canonical pool (raw inline bytes, whole heap buffers incl. stale tails, capacities, reference counts, sharing graph); distinct = distinct canonical state".into();
            let (dw, dt, ds, di, dsh, dst, dinl) = if quick { (4, 3, 2, 2, 3, 3, 4) } else { (6, 5, 4, 3, 7, 5, 7) };
            bfs(&env, report, &wide, Roots::Empty, dw, props, dw <= 5);
            bfs(&env, report, &wide_try, Roots::Empty, dt, props, true);
            bfs(&env, report, &wide, Roots::Seeds, ds, props, true);
            bfs(&env, report, &index, Roots::Empty, di, props, true);
            bfs(&env, report, &share, Roots::Seeds, dsh, props, true);
            bfs(&env, report, &statics, Roots::Empty, dst, props, true);
            bfs(&env, report, &inline, Roots::Empty, dinl, props, true);
        }
        "C02" => {
            report.rule = "same graph as C01 incl. failing and panicking operations; oracle: every handle that is not the target of the step is bit-identical (text, length, pointer, capacity, raw words) before and after; 'static bytes pristine; sentinels around every handle intact".into();
            let (dw, ds, dsh, dst) = if quick { (4, 2, 4, 3) } else { (5, 4, 8, 5) };
            bfs(&env, report, &wide, Roots::Empty, dw, props, true);
            bfs(&env, report, &wide, Roots::Seeds, ds, props, true);
            bfs(&env, report, &share, Roots::Seeds, dsh, props, true);
            bfs(&env, report, &statics, Roots::Empty, dst, props, true);
        }
        "C03" => {
            report.rule = "same graph as C01 with operations that fail without fault injection (huge reservations, huge size hints, bad indices, panicking predicates); shadow heap checked after every step (refcount == live handles, live blocks == referenced buffers, no access outside a live block, layouts repeated, guards and poison intact); every new state is closed in all K rotation orders and must leave zero live blocks".into();
            let (dw, dt, ds, dsh, dst) = if quick { (4, 3, 2, 3, 3) } else { (5, 4, 4, 7, 5) };
            bfs(&env, report, &wide, Roots::Empty, dw, props, true);
            bfs(&env, report, &wide_try, Roots::Empty, dt, props, true);
            bfs(&env, report, &wide, Roots::Seeds, ds, props, true);
            bfs(&env, report, &share, Roots::Seeds, dsh, props, true);
            bfs(&env, report, &statics, Roots::Empty, dst, props, true);
        }
        "C05" => {
            report.rule = "for every stored state of the explored graph, every enabled operation in both forms (plain / try_), every allocator request k the operation issues is refused in turn (1 deviation); second refusals inside the same call and in every follow-up operation (2 deviations); distinct = distinct (operation, target storage, form, outcome class)".into();
            let (dw, ds) = if quick { (2, 0) } else { (3, 1) };
            let stored = bfs(&env, report, &wide, Roots::Empty, dw, Props::default(), true);
            let mut states = flatten(&stored, dw);
            if !quick {
                let s2 = bfs(&env, report, &wide, Roots::Seeds, ds, Props::default(), true);
                states.extend(flatten(&s2, ds));
            } else {
                states.extend(profiles::seeds(&wide));
            }
            let stats = ProbeStats::default();
            let cx = ProbeCtx { prof: &wide, findings, stats: &stats };
            let cfg = FaultCfg { followups: true, pairs: true };
            let (done, complete) = for_each_state(&states, threads, budget, |h| probes::fault_probe(&cx, h, &cfg));
            report.add_probe(stats.to_json("allocation-refusal", done, complete));
            report.bounds.push(format!("fault probe: states up to depth {dw} of wide + seeds; single refusals, in-call second refusals, and pairs across one follow-up operation"));
        }
        _ => {
            report.machinery_errors.push(format!("seqmc has no plan for property {prop}"));
        }
    }
}

pub fn profile_by_name(name: &str) -> Option<Profile> {
    Some(match name {
        "wide" => profiles::wide(Form::Plain),
        "wide-try" => profiles::wide(Form::Try),
        "share" => profiles::share(),
        "static" => profiles::statics(),
        "inline" => profiles::inline_only(),
        "index" => profiles::index(),
        _ => return None,
    })
}

/// Re-executes a replay file step by step with every oracle on and prints the trace.
pub fn replay_file(path: &str) -> i32 {
    let txt = match std::fs::read_to_string(path) {
        Ok(t) => t,
        Err(e) => {
            eprintln!("cannot read {path}: {e}");
            return 2;
        }
    };
    let v: serde_json::Value = match serde_json::from_str(&txt) {
        Ok(v) => v,
        Err(e) => {
            eprintln!("bad replay file: {e}");
            return 2;
        }
    };
    let prof = match v["profile"].as_str().and_then(profile_by_name) {
        Some(p) => p,
        None => {
            eprintln!("unknown profile in replay file");
            return 2;
        }
    };
    let mut hist = Vec::new();
    for s in v["history"].as_array().cloned().unwrap_or_default() {
        let s = s.as_str().unwrap_or("").to_string();
        match prof.table.iter().position(|o| format!("{o:?}") == s) {
            Some(i) => hist.push(i as OpId),
            None => {
                eprintln!("operation {s} is not in profile {}", prof.name);
                return 2;
            }
        }
    }
    println!("replaying {} ({}), property {}", path, v["signature"].as_str().unwrap_or("?"), v["property"].as_str().unwrap_or("?"));
    crate::shim::with(|s| s.reset());
    let mut p = Pool::new(prof.k);
    let mut bad = 0;
    for (n, &id) in hist.iter().enumerate() {
        let op = prof.table[id as usize];
        let rec = crate::oracle::step(&mut p, op, prof.form);
        let mut viols = Vec::new();
        step_oracles(&Props::all(), &rec, &p, &mut viols);
        println!("step {:>2} {:<28} -> {:?}   requests={} frees={}", n + 1, format!("{op:?}"), rec.lean, rec.d.requests, rec.d.frees);
        for i in 0..p.k {
            if let Some(o) = &rec.post[i] {
                println!("          slot {i}: {:?} len={} cap={} rc={} text={:?}", o.kind, o.len, o.cap, o.rc, String::from_utf8_lossy(&o.text));
            }
        }
        for e in &viols {
            println!("          VIOLATED {}/{}: {}", e.prop, e.oracle, e.detail);
            bad += 1;
        }
    }
    let extra = v["extra"].as_str().unwrap_or("");
    if !extra.is_empty() {
        println!("probe case: {extra}");
        let findings = Findings::default();
        let stats = ProbeStats::default();
        let cx = ProbeCtx { prof: &prof, findings: &findings, stats: &stats };
        let _ = quiet(|| drop(p));
        probes::replay_case(&cx, &hist, v["signature"].as_str().unwrap_or(""), extra);
        for f in findings.map.lock().unwrap().values() {
            if f.extra == extra || f.extra.starts_with(extra) {
                println!("          VIOLATED {}: {}", f.sig, f.detail);
                bad += 1;
            }
        }
    } else {
        let mut viols = Vec::new();
        let _ = quiet(|| p.close(0));
        crate::oracle::c03_closed("close", &mut viols);
        for e in &viols {
            println!("          VIOLATED {}/{}: {}", e.prop, e.oracle, e.detail);
            bad += 1;
        }
    }
    println!("{} violation(s) reproduced", bad);
    if bad > 0 { 1 } else { 0 }
}
