//! Deviation passes (DESIGN §4.6) and per-state sweeps: for every stored state, every case of
//! a probe is executed on a fresh re-execution of the state's history.
use crate::explore::{Findings, OpId, Profile, enabled, replay};
use crate::oracle::{self, StepRec, Viol};
use crate::pool::*;
use crate::shim;
use std::collections::BTreeMap;
use std::sync::Mutex;
use std::sync::atomic::{AtomicU64, Ordering};

#[derive(Default)]
pub struct ProbeStats {
    pub cases: AtomicU64,
    pub executions: AtomicU64,
    pub classes: Mutex<BTreeMap<String, u64>>,
    pub sample: Mutex<Vec<String>>,
}
impl ProbeStats {
    pub fn class(&self, c: String) {
        *self.classes.lock().unwrap().entry(c).or_default() += 1;
    }
    pub fn sample(&self, s: impl FnOnce() -> String) {
        let mut g = self.sample.lock().unwrap();
        if g.len() < 6 {
            g.push(s());
        }
    }
    pub fn to_json(&self, name: &str, states: u64, complete: bool) -> serde_json::Value {
        serde_json::json!({
            "name": name, "states_probed": states, "cases": self.cases.load(Ordering::Relaxed),
            "executions": self.executions.load(Ordering::Relaxed), "complete": complete,
            "classes": *self.classes.lock().unwrap(), "samples": *self.sample.lock().unwrap(),
        })
    }
}

pub struct ProbeCtx<'a> {
    pub prof: &'a Profile,
    pub findings: &'a Findings,
    pub stats: &'a ProbeStats,
}

impl ProbeCtx<'_> {
    fn report(&self, hist: &[OpId], viols: &[Viol], op_kind: &str, tkind: &str, extra: &str) {
        for v in viols {
            self.findings.add(self.prof, hist, v, op_kind, tkind, extra);
        }
    }
}

// -------------------------------------------------------------------------------------
// C05: allocation refusals

#[derive(Clone, Debug, PartialEq, Eq)]
pub struct Faulted {
    pub op: Op,
    pub form: Form,
    pub fail: Vec<u64>,
}

#[derive(Clone, Copy, Debug, PartialEq, Eq)]
pub enum FaultClass {
    NotReached,
    Absorbed,
    Reported,
    Wrong,
}

/// Does the Try form of `exec` call an API that returns `Result<_, ReserveError>`?
pub fn has_try_api(op: Op) -> bool {
    use Op::*;
    match op {
        FromStr(_) | ToLeanDisplay(_) | WithCap(_) | WithCapAbs(_) => true,
        Conv(k, _) => matches!(k, 4 | 8 | 9 | 10 | 11),
        Push(..) | PushStr(..) | PushAscii(..) | Pop(_) | Remove(..) | Insert(..) | InsertStr(..) | Truncate(..) | TruncateAbs(..) | Retain(..) | RetainPanic(..) | Reserve(..) | ReserveHuge(..) | ShrinkTo(..) | ShrinkFit(_) => true,
        _ => false,
    }
}

/// the pieces an iterator-driven operation appends one after the other
fn pieces(p: &Pool, op: Op) -> Option<Vec<String>> {
    use Op::*;
    Some(match op {
        ExtendChars(_) => vec!["a".into(), "€".into()],
        ExtendStrs(_) => vec!["b".into(), "cd".into()],
        ExtendLean(_, s) => vec![p.m[s as usize].clone().unwrap_or_default()],
        ExtendHuge(_, n) => ['x', 'é'].iter().take(n as usize).map(|c| c.to_string()).collect(),
        WriteFmt(_) => vec!["7".into(), "w".into()],
        _ => return None,
    })
}

pub fn exec_faulted(p: &mut Pool, f: &Faulted, out: &mut Vec<Viol>) -> (FaultClass, StepRec) {
    let mut v = |oracle: &'static str, detail: String| out.push(Viol { prop: "C05", oracle, detail });
    let pre_m: Vec<Option<String>> = p.m.to_vec();
    let item_pieces = pieces(p, f.op);
    shim::with(|s| s.arm(&f.fail));
    let rec = oracle::step(p, f.op, f.form);
    shim::with(|s| s.disarm());
    let what = format!("{:?}/{:?} with request(s) {:?} refused", f.op, f.form, f.fail);
    if rec.d.refused == 0 {
        return (FaultClass::NotReached, rec);
    }
    let tryish = f.form == Form::Try && has_try_api(f.op);
    let reported = match &rec.lean {
        Outcome::ReserveErr => tryish,
        Outcome::Panic(m) => !tryish && m == ALLOC_MSG,
        _ => false,
    };
    let class = if let Outcome::Done(_) = rec.lean {
        let mut c = Vec::new();
        oracle::c01(&rec, p, &mut c);
        if let Some(e) = c.first() {
            v("absorbed-wrong", format!("{what}: the call completed but {}", e.detail));
            sync_model(p);
        }
        FaultClass::Absorbed
    } else if reported {
        // the reference for a reported failure: the value before the call
        let t = f.op.target();
        for i in 0..p.k {
            p.m[i] = pre_m[i].clone();
        }
        if f.op.is_ctor() || f.op.is_clone() {
            if let Some(e) = rec.new_slot {
                if p.h(e).is_some() {
                    v("half-applied", format!("{what}: a value was produced although the call failed"));
                }
                p.m[e] = None;
            }
        } else if let Op::Add(i) = f.op {
            // `s + "xy"` consumes s; after the panic there is no value on either side
            p.m[i as usize] = None;
        } else if let Some(t) = t {
            let actual = p.h(t).map(|h| h.as_bytes().to_vec());
            let before = pre_m[t].clone().unwrap_or_default();
            let mut ok = actual.as_deref() == Some(before.as_bytes());
            if !ok {
                if let (Some(ps), Some(a)) = (&item_pieces, &actual) {
                    // iterator-driven: may stop between items
                    let mut acc = before.clone();
                    for piece in ps {
                        acc.push_str(piece);
                        if a.as_slice() == acc.as_bytes() {
                            ok = true;
                            p.m[t] = Some(acc.clone());
                        }
                    }
                }
            }
            if !ok {
                v("half-applied", format!("{what}: target held {:?} before the call and reads {:?} after the reported failure", before, actual.map(|a| String::from_utf8_lossy(&a).into_owned())));
                sync_model(p);
            }
        }
        FaultClass::Reported
    } else {
        v("wrong-report", format!("{what}: outcome {:?}; expected {}", rec.lean, if tryish { "Err(ReserveError)" } else { "a panic with the ReserveError message" }));
        sync_model(p);
        FaultClass::Wrong
    };
    // everybody else untouched, heap consistent
    let mut c = Vec::new();
    oracle::c02(&rec, p, &mut c);
    for e in c {
        v("other-changed", format!("{what}: {}", e.detail));
    }
    let mut c = Vec::new();
    oracle::c03(&rec, p, &mut c);
    for e in c {
        out.push(Viol { prop: "C05", oracle: heap_oracle(e.oracle), detail: format!("{what}: {}", e.detail) });
    }
    (class, rec)
}

fn heap_oracle(o: &'static str) -> &'static str {
    match o {
        "refcount" => "heap-refcount",
        "leak" | "leak-at-end" => "heap-leak",
        "use-after-free" | "freed-under-reader" | "dangling" => "heap-use-after-free",
        "layout" => "heap-layout",
        _ => "heap-damage",
    }
}

/// After a violation: bring the model in line with reality so that the run can go on.
fn sync_model(p: &mut Pool) {
    for i in 0..p.k {
        p.m[i] = p.h(i).map(|h| String::from_utf8_lossy(h.as_bytes()).into_owned());
    }
}

fn close_check(p: &mut Pool, what: &str, out: &mut Vec<Viol>, prop: &'static str) {
    if let Err(m) = quiet(|| p.close(0)) {
        out.push(Viol { prop, oracle: "close-panic", detail: format!("{what}: dropping the handles panicked: {m}") });
    }
    let mut c = Vec::new();
    oracle::c03_closed(what, &mut c);
    for e in c {
        out.push(Viol { prop, oracle: if e.oracle == "leak-at-end" { "leak-at-end" } else { "heap-damage-at-end" }, detail: e.detail });
    }
}

fn followup_ops(prof: &Profile, p: &Pool) -> Vec<Op> {
    use Op::*;
    let mut v = Vec::new();
    for i in 0..prof.k as u8 {
        for op in [Push(i, 0), PushStr(i, 2), Pop(i), Clear(i), Reserve(i, 3), ShrinkFit(i), Clone(i), Drop(i), Remove(i, Idx::Zero), Retain(i, 3), Insert(i, Idx::Zero, 2)] {
            if op_enabled(p, op, &prof.limits) {
                v.push(op);
            }
        }
    }
    v
}

pub struct FaultCfg {
    pub followups: bool,
    pub pairs: bool,
}

fn run_chain(prof: &Profile, hist: &[OpId], chain: &[Faulted], out: &mut Vec<Viol>) -> (Pool, FaultClass, Option<StepRec>) {
    let mut p = replay(prof, hist);
    let mut class = FaultClass::NotReached;
    let mut last = None;
    for (i, f) in chain.iter().enumerate() {
        let mut scratch = Vec::new();
        let (c, rec) = exec_faulted(&mut p, f, if i + 1 == chain.len() { out } else { &mut scratch });
        class = c;
        last = Some(rec);
    }
    (p, class, last)
}

pub fn fault_ops(prof: &Profile, p: &Pool) -> Vec<Op> {
    let mut v: Vec<Op> = enabled(prof, p).into_iter().map(|i| prof.table[i as usize]).collect();
    if p.empty_slot().is_some() {
        for k in 0..CONV_KINDS {
            for t in [3u8, 4] {
                v.push(Op::Conv(k, t));
            }
        }
    }
    v
}

pub fn fault_probe(cx: &ProbeCtx, hist: &[OpId], cfg: &FaultCfg) {
    let prof = cx.prof;
    let p0 = replay(prof, hist);
    let ops = fault_ops(prof, &p0);
    drop(p0);
    for op in ops {
        for form in [Form::Plain, Form::Try] {
            // how many requests does the operation issue when nothing is refused?
            let mut p = replay(prof, hist);
            let rec = oracle::step(&mut p, op, form);
            let n = rec.d.requests;
            let _ = quiet(|| drop(p));
            cx.stats.executions.fetch_add(1, Ordering::Relaxed);
            let mut k = 1;
            while k <= n {
                fault_case(cx, hist, &[Faulted { op, form, fail: vec![k] }], cfg, 0);
                k += 1;
            }
        }
    }
}

fn fault_case(cx: &ProbeCtx, hist: &[OpId], chain: &[Faulted], cfg: &FaultCfg, depth: usize) {
    let prof = cx.prof;
    let last = chain.last().unwrap();
    let extra = format!("{chain:?}");
    let mut viols = Vec::new();
    let (mut p, class, rec) = run_chain(prof, hist, chain, &mut viols);
    let rec = rec.unwrap();
    cx.stats.cases.fetch_add(1, Ordering::Relaxed);
    cx.stats.executions.fetch_add(1, Ordering::Relaxed);
    let tk = oracle::target_kind(&rec);
    cx.stats.class(format!("{}/{}/{:?}/{:?}", last.op.kind_name(), tk, last.form, class));
    cx.stats.sample(|| format!("{:?} then {extra} -> {class:?}", prof.render(hist)));
    let fu = if class != FaultClass::NotReached && cfg.followups && depth == 0 { followup_ops(prof, &p) } else { vec![] };
    close_check(&mut p, &format!("{extra}, then all handles dropped"), &mut viols, "C05");
    cx.report(hist, &viols, last.op.kind_name(), tk, &extra);
    if class == FaultClass::NotReached {
        return;
    }
    // a second refusal inside the same call (only reachable when the first one was absorbed)
    if class == FaultClass::Absorbed && depth == 0 {
        let n2 = rec.d.requests;
        let k1 = *last.fail.last().unwrap();
        for k2 in k1 + 1..=n2 {
            let mut c2 = chain.to_vec();
            c2.last_mut().unwrap().fail.push(k2);
            fault_case(cx, hist, &c2, &FaultCfg { followups: false, pairs: false }, depth + 1);
        }
    }
    for op2 in fu {
        // the follow-up operation must behave like the model and leave a clean heap
        let mut v2 = Vec::new();
        let mut scratch = Vec::new();
        let (mut p, _, _) = run_chain(prof, hist, chain, &mut scratch);
        let rec2 = oracle::step(&mut p, op2, Form::Plain);
        cx.stats.executions.fetch_add(1, Ordering::Relaxed);
        let mut c = Vec::new();
        oracle::c01(&rec2, &p, &mut c);
        oracle::c03(&rec2, &p, &mut c);
        for e in c {
            v2.push(Viol { prop: "C05", oracle: "follow-up", detail: format!("after {extra}, {op2:?}: {}", e.detail) });
        }
        let n2 = rec2.d.requests;
        close_check(&mut p, &format!("{extra}, {op2:?}, then all handles dropped"), &mut v2, "C05");
        cx.report(hist, &v2, last.op.kind_name(), tk, &format!("{extra} then {op2:?}"));
        if cfg.pairs {
            for form2 in [Form::Plain, Form::Try] {
                for k2 in 1..=n2 {
                    let mut c2 = chain.to_vec();
                    c2.push(Faulted { op: op2, form: form2, fail: vec![k2] });
                    fault_case(cx, hist, &c2, &FaultCfg { followups: false, pairs: false }, depth + 1);
                }
            }
        }
    }
}

/// Replay support: re-runs the probe that produced `sig` on the state reached by `hist`;
/// the caller filters the findings by the recorded case description.
pub fn replay_case(cx: &ProbeCtx, hist: &[OpId], sig: &str, _extra: &str) {
    if sig.starts_with("C05/") {
        fault_probe(cx, hist, &FaultCfg { followups: true, pairs: true });
    }
}
