//! Deviation passes (DESIGN §4.6) and per-state sweeps: for every stored state, every case of
//! a probe is executed on a fresh re-execution of the state's history.
use crate::explore::{Findings, OpId, Profile, enabled, replay};
use crate::oracle::{self, StepRec, Viol};
use crate::pool::*;
use crate::shim;
use lean_string::LeanString;
use std::collections::BTreeMap;
use std::sync::Mutex;
use crate::Counter64 as AtomicU64;
use std::sync::atomic::Ordering;

#[derive(Default)]
pub struct ProbeStats {
    pub cases: AtomicU64,
    pub executions: AtomicU64,
    pub classes: Mutex<BTreeMap<String, u64>>,
    pub sample: Mutex<Vec<String>>,
}
impl ProbeStats {
    pub fn class(&self, c: String) {
        *self.classes.lock().unwrap().entry(c).or_default() += 1;
    }
    pub fn sample(&self, s: impl FnOnce() -> String) {
        let mut g = self.sample.lock().unwrap();
        if g.len() < 6 {
            g.push(s());
        }
    }
    pub fn to_json(&self, name: &str, states: u64, complete: bool) -> serde_json::Value {
        serde_json::json!({
            "name": name, "states_probed": states, "cases": self.cases.load(Ordering::Relaxed),
            "executions": self.executions.load(Ordering::Relaxed), "complete": complete,
            "classes": *self.classes.lock().unwrap(), "samples": *self.sample.lock().unwrap(),
        })
    }
}

pub struct ProbeCtx<'a> {
    pub prof: &'a Profile,
    pub findings: &'a Findings,
    pub stats: &'a ProbeStats,
    /// when a probe runs on behalf of C03 / C02, its heap-accounting resp. isolation
    /// violations are that property's violations (same predicate, other quantifier)
    pub heap_as: Option<&'static str>,
    pub iso_as: Option<&'static str>,
}

impl ProbeCtx<'_> {
    fn trace(&self, hist: &[OpId], case: &str) {
        crate::trace(|| serde_json::json!({"profile": self.prof.name, "history": self.prof.render(hist), "case": case}).to_string());
    }
    fn report(&self, hist: &[OpId], viols: &[Viol], op_kind: &str, tkind: &str, extra: &str) {
        for v in viols {
            let heapish = v.oracle.starts_with("heap-") || matches!(v.oracle, "leak-at-end" | "leak" | "close-panic");
            let isoish = matches!(v.oracle, "other-changed" | "static-bytes");
            match (self.heap_as, self.iso_as) {
                (Some(p), _) if heapish => self.findings.add(self.prof, hist, &Viol { prop: p, ..v.clone() }, op_kind, tkind, extra),
                (_, Some(p)) if isoish => self.findings.add(self.prof, hist, &Viol { prop: p, ..v.clone() }, op_kind, tkind, extra),
                _ => self.findings.add(self.prof, hist, v, op_kind, tkind, extra),
            }
        }
    }
}

// -------------------------------------------------------------------------------------
// C05: allocation refusals

#[derive(Clone, Debug, PartialEq, Eq)]
pub struct Faulted {
    pub op: Op,
    pub form: Form,
    pub fail: Vec<u64>,
}

#[derive(Clone, Copy, Debug, PartialEq, Eq)]
pub enum FaultClass {
    NotReached,
    Absorbed,
    Reported,
    Wrong,
}

/// Does the Try form of `exec` call an API that returns `Result<_, ReserveError>`?
pub fn has_try_api(op: Op) -> bool {
    use Op::*;
    match op {
        FromStr(_) | ToLeanDisplay(_) | ToLeanSwallow(_) | WithCap(_) | WithCapAbs(_) => true,
        Conv(k, _) => matches!(k, 4 | 8 | 9 | 10 | 11),
        Push(..) | PushStr(..) | PushAscii(..) | Pop(_) | Remove(..) | Insert(..) | InsertStr(..) | Truncate(..) | TruncateAbs(..) | Retain(..) | RetainPanic(..) | Reserve(..) | ReserveHuge(..) | ShrinkTo(..) | ShrinkFit(_) => true,
        _ => false,
    }
}

/// the pieces an iterator-driven operation appends one after the other
fn pieces(p: &Pool, op: Op) -> Option<Vec<String>> {
    use Op::*;
    Some(match op {
        ExtendChars(_) | ExtendFiltered(_) | ExtendLying(..) => vec!["a".into(), "€".into()],
        ExtendStrs(_) => vec!["b".into(), "cd".into()],
        ExtendLean(_, s) => vec![p.m[s as usize].clone().unwrap_or_default()],
        ExtendHuge(_, n) => ['x', 'é'].iter().take(n as usize).map(|c| c.to_string()).collect(),
        WriteFmt(_) => vec!["7".into(), "w".into()],
        _ => return None,
    })
}

pub fn exec_faulted(p: &mut Pool, f: &Faulted, out: &mut Vec<Viol>) -> (FaultClass, StepRec) {
    let mut v = |oracle: &'static str, detail: String| out.push(Viol { prop: "C05", oracle, detail });
    let pre_m: Vec<Option<String>> = p.m.to_vec();
    let item_pieces = pieces(p, f.op);
    shim::with(|s| s.arm(&f.fail));
    let rec = oracle::step(p, f.op, f.form);
    shim::with(|s| s.disarm());
    let what = format!("{:?}/{:?} with request(s) {:?} refused", f.op, f.form, f.fail);
    if rec.d.refused == 0 {
        return (FaultClass::NotReached, rec);
    }
    let tryish = f.form == Form::Try && has_try_api(f.op);
    let reported = match &rec.lean {
        Outcome::ReserveErr => tryish,
        Outcome::Panic(m) => !tryish && m == ALLOC_MSG,
        _ => false,
    };
    let mut extra: Vec<Viol> = Vec::new();
    let class = if let Outcome::Done(_) = rec.lean {
        let mut c = Vec::new();
        oracle::c01(&rec, p, &mut c);
        if let Some(e) = c.first() {
            v("absorbed-wrong", format!("{what}: the call completed but {}", e.detail));
            sync_model(p);
        }
        // a call that completes although a request was refused is still an append / reserve /
        // shrink: the capacity promises (C11), the growth bounds (C12) and the shrink algebra
        // (C13) apply to its result like to any other
        oracle::c11(&rec, p, &mut extra);
        oracle::c12(&rec, p, &mut extra);
        oracle::c13(&rec, p, &mut extra);
        for e in extra.iter_mut() {
            e.detail = format!("{what}: {}", e.detail);
        }
        FaultClass::Absorbed
    } else if reported {
        // the reference for a reported failure: the value before the call
        let t = f.op.target();
        for i in 0..p.k {
            p.m[i] = pre_m[i].clone();
        }
        if f.op.is_ctor() || f.op.is_clone() {
            if let Some(e) = rec.new_slot {
                if p.h(e).is_some() {
                    v("half-applied", format!("{what}: a value was produced although the call failed"));
                }
                p.m[e] = None;
            }
        } else if let Op::Add(i) = f.op {
            // `s + "xy"` consumes s; after the panic there is no value on either side
            p.m[i as usize] = None;
        } else if let Some(t) = t {
            let actual = p.h(t).map(|h| h.as_bytes().to_vec());
            let before = pre_m[t].clone().unwrap_or_default();
            let mut ok = actual.as_deref() == Some(before.as_bytes());
            if !ok {
                if let (Some(ps), Some(a)) = (&item_pieces, &actual) {
                    // iterator-driven: may stop between items
                    let mut acc = before.clone();
                    for piece in ps {
                        acc.push_str(piece);
                        if a.as_slice() == acc.as_bytes() {
                            ok = true;
                            p.m[t] = Some(acc.clone());
                        }
                    }
                }
            }
            if !ok {
                v("half-applied", format!("{what}: target held {:?} before the call and reads {:?} after the reported failure", before, actual.map(|a| String::from_utf8_lossy(&a).into_owned())));
                sync_model(p);
            }
        }
        FaultClass::Reported
    } else {
        v("wrong-report", format!("{what}: outcome {:?}; expected {}", rec.lean, if tryish { "Err(ReserveError)" } else { "a panic with the ReserveError message" }));
        sync_model(p);
        FaultClass::Wrong
    };
    // a refused shrink still may not leave the capacity outside the statement's bounds
    if let (true, Some(m), Some(t)) = (reported, rec.shrink_m, f.op.target()) {
        if let (Some(a), Some(b)) = (rec.pre[t].as_ref(), rec.post[t].as_ref()) {
            let mut vv = |o: &'static str, d: String| extra.push(Viol { prop: "C13", oracle: o, detail: format!("{what}: {d}") });
            if b.text != a.text {
                vv("text", "the refused shrink changed the text".into());
            }
            if b.cap > a.cap.max(INLINE) {
                vv("grew", format!("capacity {} -> {} after the refused shrink", a.cap, b.cap));
            }
            if b.cap < b.len {
                vv("below-len", format!("capacity {} < len {}", b.cap, b.len));
            }
            if b.cap < m && a.cap >= m {
                vv("below-m", format!("capacity {} -> {} fell below m = {m} although the shrink was refused", a.cap, b.cap));
            }
        }
    }
    // everybody else untouched, heap consistent
    let mut c = Vec::new();
    oracle::c02(&rec, p, &mut c);
    for e in c {
        v("other-changed", format!("{what}: {}", e.detail));
    }
    out.append(&mut extra);
    let mut c = Vec::new();
    oracle::c03(&rec, p, &mut c);
    for e in c {
        out.push(Viol { prop: "C05", oracle: heap_oracle(e.oracle), detail: format!("{what}: {}", e.detail) });
    }
    (class, rec)
}

fn heap_oracle(o: &'static str) -> &'static str {
    match o {
        "refcount" => "heap-refcount",
        "leak" | "leak-at-end" => "heap-leak",
        "use-after-free" | "freed-under-reader" | "dangling" => "heap-use-after-free",
        "layout" => "heap-layout",
        _ => "heap-damage",
    }
}

/// After a violation: bring the model in line with reality so that the run can go on.
fn sync_model(p: &mut Pool) {
    for i in 0..p.k {
        p.m[i] = p.h(i).map(|h| String::from_utf8_lossy(h.as_bytes()).into_owned());
    }
}

fn close_check(p: &mut Pool, what: &str, out: &mut Vec<Viol>, prop: &'static str) {
    if let Err(m) = quiet(|| p.close(0)) {
        out.push(Viol { prop, oracle: "close-panic", detail: format!("{what}: dropping the handles panicked: {m}") });
    }
    let mut c = Vec::new();
    oracle::c03_closed(what, &mut c);
    for e in c {
        out.push(Viol { prop, oracle: if e.oracle == "leak-at-end" { "leak-at-end" } else { "heap-damage-at-end" }, detail: e.detail });
    }
}

fn followup_ops(prof: &Profile, p: &Pool) -> Vec<Op> {
    use Op::*;
    let mut v = Vec::new();
    for i in 0..prof.k as u8 {
        for op in [Push(i, 0), PushStr(i, 2), Pop(i), Clear(i), Reserve(i, 3), ShrinkFit(i), Clone(i), Drop(i), Remove(i, Idx::Zero), Retain(i, 3), Insert(i, Idx::Zero, 2)] {
            if op_enabled(p, op, &prof.limits) {
                v.push(op);
            }
        }
    }
    v
}

pub struct FaultCfg {
    pub followups: bool,
    pub pairs: bool,
}

fn run_chain(prof: &Profile, hist: &[OpId], chain: &[Faulted], out: &mut Vec<Viol>) -> (Pool, FaultClass, Option<StepRec>) {
    let mut p = replay(prof, hist);
    let mut class = FaultClass::NotReached;
    let mut last = None;
    for (i, f) in chain.iter().enumerate() {
        let mut scratch = Vec::new();
        let (c, rec) = exec_faulted(&mut p, f, if i + 1 == chain.len() { out } else { &mut scratch });
        class = c;
        last = Some(rec);
    }
    (p, class, last)
}

pub fn fault_ops(prof: &Profile, p: &Pool) -> Vec<Op> {
    let mut v: Vec<Op> = enabled(prof, p).into_iter().map(|i| prof.table[i as usize]).collect();
    // write! under a refused allocation is covered by WriteFmt; a refusal *and* a failing Display
    // in one call has no reference behaviour
    v.retain(|o| !matches!(o, Op::WriteFmtBad(..)));
    if p.empty_slot().is_some() {
        for k in 0..CONV_KINDS {
            for t in [3u8, 4, 5] {
                v.push(Op::Conv(k, t));
            }
        }
        for t in [4u8, 5] {
            v.push(Op::ToLeanSwallow(t));
        }
        v.extend([Op::FromStr(5), Op::Collect(5), Op::ToLeanDisplay(5), Op::FromString(5)]);
    }
    v
}

pub fn fault_probe(cx: &ProbeCtx, hist: &[OpId], cfg: &FaultCfg) {
    let prof = cx.prof;
    let p0 = replay(prof, hist);
    let ops = fault_ops(prof, &p0);
    drop(p0);
    for op in ops {
        for form in [Form::Plain, Form::Try] {
            // how many requests does the operation issue when nothing is refused?
            let mut p = replay(prof, hist);
            let rec = oracle::step(&mut p, op, form);
            let n = rec.d.requests;
            let _ = quiet(|| drop(p));
            cx.stats.executions.fetch_add(1, Ordering::Relaxed);
            let mut k = 1;
            while k <= n {
                fault_case(cx, hist, &[Faulted { op, form, fail: vec![k] }], cfg, 0);
                k += 1;
            }
        }
    }
}

fn fault_case(cx: &ProbeCtx, hist: &[OpId], chain: &[Faulted], cfg: &FaultCfg, depth: usize) {
    let prof = cx.prof;
    let last = chain.last().unwrap();
    let extra = format!("{chain:?}");
    cx.trace(hist, &extra);
    let mut viols = Vec::new();
    let (mut p, class, rec) = run_chain(prof, hist, chain, &mut viols);
    let rec = rec.unwrap();
    cx.stats.cases.fetch_add(1, Ordering::Relaxed);
    cx.stats.executions.fetch_add(1, Ordering::Relaxed);
    let tk = oracle::target_kind(&rec);
    cx.stats.class(format!("{}/{}/{:?}/{:?}", last.op.kind_name(), tk, last.form, class));
    cx.stats.sample(|| format!("{:?} then {extra} -> {class:?}", prof.render(hist)));
    // a state that already violated the property is not explored further (its heap may be corrupt)
    let sane = viols.is_empty();
    let fu = if sane && class != FaultClass::NotReached && cfg.followups && depth == 0 { followup_ops(prof, &p) } else { vec![] };
    close_check(&mut p, &format!("{extra}, then all handles dropped"), &mut viols, "C05");
    cx.report(hist, &viols, last.op.kind_name(), tk, &format!("fault|{extra}"));
    if class == FaultClass::NotReached || !sane {
        return;
    }
    // a second refusal inside the same call (only reachable when the first one was absorbed)
    if class == FaultClass::Absorbed && depth == 0 {
        let n2 = rec.d.requests;
        let k1 = *last.fail.last().unwrap();
        for k2 in k1 + 1..=n2 {
            let mut c2 = chain.to_vec();
            c2.last_mut().unwrap().fail.push(k2);
            fault_case(cx, hist, &c2, &FaultCfg { followups: false, pairs: false }, depth + 1);
        }
    }
    for op2 in fu {
        // the follow-up operation must behave like the model and leave a clean heap
        let mut v2 = Vec::new();
        let mut scratch = Vec::new();
        cx.trace(hist, &format!("{extra} then {op2:?}"));
        let (mut p, _, _) = run_chain(prof, hist, chain, &mut scratch);
        let rec2 = oracle::step(&mut p, op2, Form::Plain);
        cx.stats.executions.fetch_add(1, Ordering::Relaxed);
        let mut c = Vec::new();
        oracle::c01(&rec2, &p, &mut c);
        oracle::c03(&rec2, &p, &mut c);
        for e in c {
            v2.push(Viol { prop: "C05", oracle: "follow-up", detail: format!("after {extra}, {op2:?}: {}", e.detail) });
        }
        let n2 = rec2.d.requests;
        close_check(&mut p, &format!("{extra}, {op2:?}, then all handles dropped"), &mut v2, "C05");
        cx.report(hist, &v2, last.op.kind_name(), tk, &format!("fault|{extra} then {op2:?}"));
        if cfg.pairs {
            for form2 in [Form::Plain, Form::Try] {
                for k2 in 1..=n2 {
                    let mut c2 = chain.to_vec();
                    c2.push(Faulted { op: op2, form: form2, fail: vec![k2] });
                    fault_case(cx, hist, &c2, &FaultCfg { followups: false, pairs: false }, depth + 1);
                }
            }
        }
    }
}

/// Replay support: re-runs, on the state reached by `hist`, the probe that produced a finding
/// (the probe kind is the tag in front of the recorded case); the caller filters the findings
/// by signature.
pub fn replay_case(cx: &ProbeCtx, hist: &[OpId], extra: &str) {
    match extra.split('|').next().unwrap_or("") {
        "fault" => fault_probe(cx, hist, &FaultCfg { followups: true, pairs: true }),
        "panic" => panic_probe(cx, hist),
        "size" => size_probe(cx, hist),
        "sizector" => size_ctor_sweep(cx),
        "index" => index_probe(cx, hist),
        "shrink" => shrink_probe(cx, hist),
        _ => {}
    }
}

// -------------------------------------------------------------------------------------
// shared helpers

fn pool_key(p: &Pool) -> u128 {
    hash128(&canonical_key(p))
}

fn others_unchanged(pre: &[Option<SlotObs>], p: &Pool, target: Option<usize>, prop: &'static str, what: &str, out: &mut Vec<Viol>) {
    for i in 0..p.k {
        if Some(i) == target {
            continue;
        }
        let post = p.h(i).map(observe);
        match (&pre[i], &post) {
            (None, None) => {}
            (Some(a), Some(b)) => {
                if a.text != b.text || a.len != b.len || a.ptr != b.ptr || a.cap != b.cap || a.raw != b.raw {
                    out.push(Viol { prop, oracle: "other-changed", detail: format!("{what}: slot {i} changed from {:?} (cap {}) to {:?} (cap {})", String::from_utf8_lossy(&a.text), a.cap, String::from_utf8_lossy(&b.text), b.cap) });
                }
            }
            _ => out.push(Viol { prop, oracle: "other-changed", detail: format!("{what}: slot {i} appeared/disappeared") }),
        }
    }
    if !texts(|t| t.statics_intact()) {
        out.push(Viol { prop, oracle: "static-bytes", detail: format!("{what}: the bytes of a 'static text were modified") });
    }
}

fn heap_checks(p: &Pool, prop: &'static str, what: &str, out: &mut Vec<Viol>) {
    let mut c = Vec::new();
    oracle::heap_accounting(p, what, &mut c);
    let (errs, audit) = shim::with(|s| (s.errors.clone(), s.audit()));
    for e in c {
        out.push(Viol { prop, oracle: heap_oracle(e.oracle), detail: e.detail });
    }
    if let Some(e) = errs.first().or(audit.first()) {
        out.push(Viol { prop, oracle: "heap-damage", detail: format!("{what}: {e}") });
    }
}

fn kind_str(o: Option<&SlotObs>) -> &'static str {
    match o {
        None => "none",
        Some(o) => match o.kind {
            Kind::Inline => "inline",
            Kind::Static => "static",
            Kind::Heap if o.rc == 1 => "heap-unique",
            Kind::Heap => "heap-shared",
        },
    }
}

// -------------------------------------------------------------------------------------
// C18: panicking callbacks

#[derive(Clone, Copy, Debug, PartialEq, Eq)]
pub enum Hint {
    Honest,
    Zero,
}

pub struct PanicIter<I> {
    it: I,
    calls: usize,
    at: usize,
    hint: Hint,
}
impl<I: Iterator> Iterator for PanicIter<I> {
    type Item = I::Item;
    fn next(&mut self) -> Option<I::Item> {
        self.calls += 1;
        if self.calls == self.at {
            panic!("iterator panics");
        }
        self.it.next()
    }
    fn size_hint(&self) -> (usize, Option<usize>) {
        match self.hint {
            Hint::Honest => self.it.size_hint(),
            Hint::Zero => (0, None),
        }
    }
}

fn pi<I: Iterator>(it: I, at: usize, hint: Hint) -> PanicIter<I> {
    PanicIter { it, calls: 0, at, hint }
}

const STR_ITEMS: [&str; 4] = ["0123456", "é€", "89abcdefgh", "😀"];
const CHAR_ITEMS: &str = "abcdefé€0123456789😀xyz";

#[derive(Clone, Copy, Debug, PartialEq, Eq)]
pub enum ItemKind {
    Char,
    CharRef,
    Str,
    StringT,
    BoxStr,
    CowStr,
    Lean,
}
const ITEM_KINDS: [ItemKind; 7] = [ItemKind::Char, ItemKind::CharRef, ItemKind::Str, ItemKind::StringT, ItemKind::BoxStr, ItemKind::CowStr, ItemKind::Lean];

fn n_items(k: ItemKind) -> usize {
    match k {
        ItemKind::Char | ItemKind::CharRef => CHAR_ITEMS.chars().count(),
        _ => STR_ITEMS.len(),
    }
}

fn lean_extend(h: &mut LeanString, k: ItemKind, at: usize, hint: Hint) {
    let chars: Vec<char> = CHAR_ITEMS.chars().collect();
    match k {
        ItemKind::Char => h.extend(pi(chars.into_iter(), at, hint)),
        ItemKind::CharRef => h.extend(pi(chars.iter(), at, hint)),
        ItemKind::Str => h.extend(pi(STR_ITEMS.into_iter(), at, hint)),
        ItemKind::StringT => h.extend(pi(STR_ITEMS.into_iter().map(String::from), at, hint)),
        ItemKind::BoxStr => h.extend(pi(STR_ITEMS.into_iter().map(Box::<str>::from), at, hint)),
        ItemKind::CowStr => h.extend(pi(STR_ITEMS.into_iter().map(std::borrow::Cow::Borrowed), at, hint)),
        ItemKind::Lean => h.extend(pi(STR_ITEMS.into_iter().map(LeanString::from), at, hint)),
    }
}
fn model_extend(m: &mut String, k: ItemKind, at: usize, hint: Hint) {
    let chars: Vec<char> = CHAR_ITEMS.chars().collect();
    match k {
        ItemKind::Char => m.extend(pi(chars.into_iter(), at, hint)),
        ItemKind::CharRef => m.extend(pi(chars.iter(), at, hint)),
        ItemKind::Str => m.extend(pi(STR_ITEMS.into_iter(), at, hint)),
        ItemKind::StringT => m.extend(pi(STR_ITEMS.into_iter().map(String::from), at, hint)),
        ItemKind::BoxStr => m.extend(pi(STR_ITEMS.into_iter().map(Box::<str>::from), at, hint)),
        ItemKind::CowStr => m.extend(pi(STR_ITEMS.into_iter().map(std::borrow::Cow::Borrowed), at, hint)),
        // std has no Extend<String-like foreign type>; the crate provides Extend<LeanString> for String,
        // but the reference here must be std only: feed the same texts as &str
        ItemKind::Lean => m.extend(pi(STR_ITEMS.into_iter(), at, hint)),
    }
}
fn lean_collect(k: ItemKind, at: usize, hint: Hint) -> LeanString {
    let chars: Vec<char> = CHAR_ITEMS.chars().collect();
    match k {
        ItemKind::Char => pi(chars.into_iter(), at, hint).collect(),
        ItemKind::CharRef => pi(chars.iter(), at, hint).collect(),
        ItemKind::Str => pi(STR_ITEMS.into_iter(), at, hint).collect(),
        ItemKind::StringT => pi(STR_ITEMS.into_iter().map(String::from), at, hint).collect(),
        ItemKind::BoxStr => pi(STR_ITEMS.into_iter().map(Box::<str>::from), at, hint).collect(),
        ItemKind::CowStr => pi(STR_ITEMS.into_iter().map(std::borrow::Cow::Borrowed), at, hint).collect(),
        ItemKind::Lean => pi(STR_ITEMS.into_iter().map(LeanString::from), at, hint).collect(),
    }
}

fn pred_panic(kind: u8, at: usize) -> impl FnMut(char) -> bool {
    let mut n = 0usize;
    move |c| {
        n += 1;
        if n == at {
            panic!("predicate panics");
        }
        match kind {
            0 => true,
            1 => false,
            2 => !c.is_ascii(),
            _ => n % 2 == 1,
        }
    }
}

struct PanicDisplay {
    pieces: &'static [&'static str],
    after: usize,
}
impl std::fmt::Display for PanicDisplay {
    fn fmt(&self, f: &mut std::fmt::Formatter<'_>) -> std::fmt::Result {
        for (i, p) in self.pieces.iter().enumerate() {
            if i == self.after {
                panic!("Display panics");
            }
            f.write_str(p)?;
        }
        if self.after >= self.pieces.len() {
            panic!("Display panics");
        }
        Ok(())
    }
}

/// One C18 case on a fresh re-execution; `f` runs the callback-taking call on the target and
/// on the model and returns (lean outcome, model outcome).
fn panic_case(cx: &ProbeCtx, hist: &[OpId], slot: Option<usize>, name: &str, desc: String, run: impl FnOnce(&mut Pool) -> (Result<(), String>, Result<(), String>)) {
    let prof = cx.prof;
    cx.trace(hist, &desc);
    let mut p = replay(prof, hist);
    let pre = p.observe();
    let live0 = shim::with(|s| s.live_blocks());
    let (lean, model) = run(&mut p);
    cx.stats.cases.fetch_add(1, Ordering::Relaxed);
    cx.stats.executions.fetch_add(1, Ordering::Relaxed);
    let tk = kind_str(slot.and_then(|s| pre[s].as_ref()));
    let mut out = Vec::new();
    let mut v = |oracle: &'static str, detail: String| out.push(Viol { prop: "C18", oracle, detail });
    match (&lean, &model) {
        (Err(a), Err(_)) => {
            if a == ALLOC_MSG {
                v("wrong-panic", format!("{desc}: panicked with the allocation message although nothing was refused"));
            }
        }
        (Ok(()), Ok(())) => {}
        (a, b) => v("panic-mismatch", format!("{desc}: LeanString {:?}, String {:?}", a.as_ref().err(), b.as_ref().err())),
    }
    cx.stats.class(format!("{name}/{tk}/{}", if lean.is_err() { "panicked" } else { "completed" }));
    cx.stats.sample(|| format!("{:?} then {desc}", prof.render(hist)));
    if let Some(t) = slot {
        let actual = p.h(t).map(|h| h.as_bytes().to_vec());
        let want = p.m[t].as_ref().map(|m| m.as_bytes().to_vec());
        if actual != want {
            v("text", format!("{desc}: after unwinding the target reads {:?}, a String holds {:?}", actual.map(|a| String::from_utf8_lossy(&a).into_owned()), p.m[t]));
        }
        if let Some(h) = p.h(t) {
            if std::str::from_utf8(h.as_bytes()).is_err() {
                v("utf8", format!("{desc}: target holds invalid UTF-8 after unwinding"));
            }
        }
    } else {
        let live1 = shim::with(|s| s.live_blocks());
        if lean.is_err() && live1 != live0 {
            v("leak", format!("{desc}: {} block(s) allocated by the call are still live after it unwound (no value exists)", live1 as i64 - live0 as i64));
        }
    }
    drop(v);
    others_unchanged(&pre, &p, slot, "C18", &desc, &mut out);
    heap_checks(&p, "C18", &desc, &mut out);
    close_check(&mut p, &format!("{desc}, then all handles dropped"), &mut out, "C18");
    cx.report(hist, &out, name, tk, &format!("panic|{desc}"));
}

pub fn panic_probe(cx: &ProbeCtx, hist: &[OpId]) {
    let prof = cx.prof;
    let p0 = replay(prof, hist);
    let slots: Vec<(usize, usize)> = (0..prof.k).filter_map(|i| p0.m[i].as_ref().map(|m| (i, m.chars().count()))).collect();
    let has_empty = p0.empty_slot().is_some();
    drop(p0);
    for &(i, nchars) in &slots {
        // retain: predicate panics at its k-th call
        for kind in 0..4u8 {
            for at in 1..=nchars {
                for try_form in [false, true] {
                    let desc = format!("slot {i}: {}(predicate #{kind} panicking at call {at})", if try_form { "try_retain" } else { "retain" });
                    panic_case(cx, hist, Some(i), "retain", desc, |p| {
                        let h = p.s[i].h.as_mut().unwrap();
                        let l = if try_form { quiet(|| h.try_retain(pred_panic(kind, at)).unwrap()) } else { quiet(|| h.retain(pred_panic(kind, at))) };
                        let m = p.m[i].as_mut().unwrap();
                        let r = quiet(|| m.retain(pred_panic(kind, at)));
                        (l, r)
                    });
                }
            }
        }
        // extend: next() panics at its k-th call
        if p_len_ok(cx, hist, i) {
            for kind in ITEM_KINDS {
                for hint in [Hint::Honest, Hint::Zero] {
                    // (call n+2 never happens: the last case is the run that completes)
                    for at in 1..=n_items(kind) + 2 {
                        let desc = format!("slot {i}: extend({kind:?} items, {hint:?} size hint, next() panicking at call {at})");
                        panic_case(cx, hist, Some(i), "extend", desc, |p| {
                            let h = p.s[i].h.as_mut().unwrap();
                            let l = quiet(|| lean_extend(h, kind, at, hint));
                            let m = p.m[i].as_mut().unwrap();
                            let r = quiet(|| model_extend(m, kind, at, hint));
                            (l, r)
                        });
                    }
                }
            }
        }
    }
    if has_empty || slots.is_empty() {
        for kind in ITEM_KINDS {
            for hint in [Hint::Honest, Hint::Zero] {
                for at in 1..=n_items(kind) + 1 {
                    let desc = format!("collect({kind:?} items, {hint:?} size hint, next() panicking at call {at})");
                    panic_case(cx, hist, None, "collect", desc, |_p| {
                        let l = quiet(|| drop(lean_collect(kind, at, hint)));
                        (l, Err("iterator panics".into()))
                    });
                }
            }
        }
        static PIECES: [&[&str]; 3] = [&["abc", "é"], &["0123456789", "abcdefgh", "€"], &["", "0123456789abcdefg", "x", "0123456789abcdefghijklmnopqrstuvwxyz"]];
        for (pi_, pieces) in PIECES.iter().enumerate() {
            for after in 0..=pieces.len() {
                for try_form in [false, true] {
                    let desc = format!("{}(Display #{pi_} panicking after {after} piece(s))", if try_form { "try_to_lean_string" } else { "to_lean_string" });
                    panic_case(cx, hist, None, "to_lean_string", desc, |_p| {
                        let d = PanicDisplay { pieces, after };
                        let l = if try_form { quiet(|| drop(lean_string::ToLeanString::try_to_lean_string(&d))) } else { quiet(|| drop(lean_string::ToLeanString::to_lean_string(&d))) };
                        (l, Err("Display panics".into()))
                    });
                }
            }
        }
    }
}

fn p_len_ok(cx: &ProbeCtx, hist: &[OpId], i: usize) -> bool {
    let p = replay(cx.prof, hist);
    p.m[i].as_ref().is_some_and(|m| m.len() < LMAX)
}

// -------------------------------------------------------------------------------------
// C06: size arguments

/// the interpreted (Miri-hosted) size probe uses a reduced value set and deals cases out to parts
fn hosted_sizes() -> bool {
    static H: std::sync::OnceLock<bool> = std::sync::OnceLock::new();
    *H.get_or_init(|| std::env::var("LSVERIF_HOSTED_PLAN").is_ok_and(|p| p == "sizes"))
}
fn hosted_part() -> Option<(usize, usize)> {
    let s = std::env::var("LSVERIF_PART").ok()?;
    let (a, b) = s.split_once('/')?;
    Some((a.parse().ok()?, b.parse().ok()?))
}

fn size_values_reduced(len: usize, cap: usize) -> Vec<usize> {
    let mut v: Vec<usize> = vec![0, 1, INLINE, INLINE + 1];
    for k in [16u32, 20, 23, 24, usize::BITS - 2, usize::BITS - 1] {
        let b = 1usize << k;
        v.extend([b - 1, b, b + 1]);
    }
    let im = isize::MAX as usize;
    v.extend([im - 1, im, im + 1, usize::MAX - 1, usize::MAX]);
    for x in [im, im + 1, usize::MAX] {
        v.push(x.wrapping_sub(len));
        v.push(x.wrapping_sub(len).wrapping_add(1));
        v.push(x.wrapping_sub(len).wrapping_sub(1));
    }
    for x in [len, cap] {
        v.extend([x.saturating_sub(1), x, x + 1]);
    }
    v.sort_unstable();
    v.dedup();
    v
}

pub fn size_values(len: usize, cap: usize) -> Vec<usize> {
    if hosted_sizes() {
        return size_values_reduced(len, cap);
    }
    let mut v: Vec<usize> = vec![0, 1, 2, INLINE - 1, INLINE, INLINE + 1, INLINE + 2];
    for k in 3..usize::BITS {
        let b = 1usize << k;
        for d in -2i64..=2 {
            v.push((b as i128 + d as i128) as usize);
        }
    }
    if usize::BITS > 56 {
        let lim = 1u128 << 56;
        for d in -3i64..=2 {
            v.push((lim as i128 + d as i128) as usize);
        }
    }
    let im = isize::MAX as usize;
    for d in -2i64..=2 {
        v.push((im as i128 + d as i128) as usize);
    }
    for d in 0..=2 {
        v.push(usize::MAX - d);
    }
    let base = v.clone();
    for x in base {
        v.push(x.wrapping_sub(len));
        v.push(x.saturating_sub(len));
    }
    for x in [len, cap] {
        v.push(x.saturating_sub(1));
        v.push(x);
        v.push(x + 1);
    }
    v.sort_unstable();
    v.dedup();
    v
}

#[derive(Clone, Copy, Debug, PartialEq, Eq)]
pub enum SizeEntry {
    TryReserve,
    Reserve,
    TryShrinkTo,
    ShrinkTo,
    ExtendHint(u8),
    /// size_hint = (0, Some(n)): the upper bound is the size argument
    ExtendUpper(u8),
}
const SIZE_ENTRIES: [SizeEntry; 9] = [SizeEntry::TryReserve, SizeEntry::Reserve, SizeEntry::TryShrinkTo, SizeEntry::ShrinkTo, SizeEntry::ExtendHint(0), SizeEntry::ExtendHint(1), SizeEntry::ExtendHint(2), SizeEntry::ExtendUpper(1), SizeEntry::ExtendUpper(2)];

pub const C06_GIANT: usize = 1 << 20;

fn size_case(cx: &ProbeCtx, hist: &[OpId], i: usize, entry: SizeEntry, n: usize, follow: bool) {
    let prof = cx.prof;
    let mut p = replay(prof, hist);
    shim::with(|s| s.giant = C06_GIANT);
    let pre = p.observe();
    let a = pre[i].clone().unwrap();
    let desc = format!("slot {i} ({}, len {}, cap {}): {entry:?}({n})", kind_str(Some(&a)), a.len, a.cap);
    cx.trace(hist, &desc);
    let items: Vec<char> = match entry {
        SizeEntry::ExtendHint(k) | SizeEntry::ExtendUpper(k) => ['x', 'é'].into_iter().take(k as usize).collect(),
        _ => vec![],
    };
    let c0 = shim::with(|s| s.mark());
    let h = p.s[i].h.as_mut().unwrap();
    let r: Result<Result<(), ()>, String> = match entry {
        SizeEntry::TryReserve => quiet(|| h.try_reserve(n).map_err(|_| ())),
        SizeEntry::Reserve => quiet(|| h.reserve(n)).map(Ok),
        SizeEntry::TryShrinkTo => quiet(|| h.try_shrink_to(n).map_err(|_| ())),
        SizeEntry::ShrinkTo => quiet(|| h.shrink_to(n)).map(Ok),
        SizeEntry::ExtendHint(_) => {
            let it = HugeHint { it: items.clone().into_iter(), hint: n };
            quiet(move || h.extend(it)).map(Ok)
        }
        SizeEntry::ExtendUpper(_) => {
            let it = Hinted { it: items.clone().into_iter(), lower: 0, upper: Some(n) };
            quiet(move || h.extend(it)).map(Ok)
        }
    };
    let _d = oracle::delta(c0, shim::with(|s| s.c));
    cx.stats.cases.fetch_add(1, Ordering::Relaxed);
    cx.stats.executions.fetch_add(1, Ordering::Relaxed);
    let tk = kind_str(Some(&a));
    let mut out = Vec::new();
    let mut v = |oracle: &'static str, detail: String| out.push(Viol { prop: "C06", oracle, detail });
    let b = p.h(i).map(observe).unwrap();
    let is_try = matches!(entry, SizeEntry::TryReserve | SizeEntry::TryShrinkTo);
    let class;
    match &r {
        Ok(Ok(())) => {
            class = "ok";
            match entry {
                SizeEntry::TryReserve | SizeEntry::Reserve => {
                    if a.len.checked_add(n).is_none() {
                        v("wrap", format!("{desc}: succeeded although len + n overflows usize"));
                    } else if b.cap < b.len + n {
                        v("postcondition", format!("{desc}: Ok but capacity {} < len {} + n", b.cap, b.len));
                    }
                    if b.text != a.text {
                        v("text", format!("{desc}: text changed"));
                    }
                    if b.kind == Kind::Static || (b.kind == Kind::Heap && b.rc != 1) {
                        v("not-exclusive", format!("{desc}: Ok but the handle is {:?} with rc {}", b.kind, b.rc));
                    }
                }
                SizeEntry::TryShrinkTo | SizeEntry::ShrinkTo => {
                    let mut vv = |o: &'static str, dd: String| out.push(Viol { prop: "C06", oracle: o, detail: dd });
                    oracle::shrink_post(&a, &b, n, &desc, &mut vv);
                }
                SizeEntry::ExtendHint(_) | SizeEntry::ExtendUpper(_) => {
                    let mut want = a.text.clone();
                    want.extend(items.iter().collect::<String>().as_bytes());
                    if b.text != want {
                        out.push(Viol { prop: "C06", oracle: "text", detail: format!("{desc}: target reads {:?}", String::from_utf8_lossy(&b.text)) });
                    }
                    p.m[i] = Some(String::from_utf8_lossy(&want).into_owned());
                }
            }
        }
        Ok(Err(())) => {
            class = "reserve-error";
            if !is_try {
                v("wrong-report", format!("{desc}: unexpected Err"));
            }
            if b.text != a.text || b.len != a.len {
                v("changed-after-failure", format!("{desc}: returned ReserveError but the target now reads {:?}", String::from_utf8_lossy(&b.text)));
            }
        }
        Err(m) => {
            class = "panic";
            if is_try || m != ALLOC_MSG {
                v("wrong-report", format!("{desc}: panicked with {m:?}"));
            }
            if let SizeEntry::ExtendHint(_) | SizeEntry::ExtendUpper(_) = entry {
                // may stop between items
                let mut acc = a.text.clone();
                let mut ok = b.text == acc;
                for c in &items {
                    acc.extend(c.to_string().as_bytes());
                    ok |= b.text == acc;
                }
                if !ok {
                    out.push(Viol { prop: "C06", oracle: "changed-after-failure", detail: format!("{desc}: after the panic the target reads {:?}", String::from_utf8_lossy(&b.text)) });
                }
                p.m[i] = Some(String::from_utf8_lossy(&b.text).into_owned());
            } else if b.text != a.text || b.len != a.len {
                out.push(Viol { prop: "C06", oracle: "changed-after-failure", detail: format!("{desc}: panicked and the target now reads {:?}", String::from_utf8_lossy(&b.text)) });
            }
        }
    }
    // "never leave the target ... changed after a failure": a refused reserve / shrink also keeps the
    // target's storage (kind, capacity, share of its buffer), not only its text (round 9, C06-r9a).
    // Native engine only: the hosted passes keep the oracle set they were validated with.
    if class != "ok" && !cfg!(miri) && !matches!(entry, SizeEntry::ExtendHint(_) | SizeEntry::ExtendUpper(_)) && (b.kind != a.kind || b.cap != a.cap || b.rc != a.rc) {
        out.push(Viol { prop: "C06", oracle: "storage-changed-after-failure", detail: format!("{desc}: refused, and the target went from {:?} cap {} rc {} to {:?} cap {} rc {}", a.kind, a.cap, a.rc, b.kind, b.cap, b.rc) });
    }
    cx.stats.class(format!("{entry:?}/{tk}/{class}").replace(|c: char| c.is_ascii_digit(), "#"));
    cx.stats.sample(|| format!("{:?} then {desc} -> {class}", prof.render(hist)));
    others_unchanged(&pre, &p, Some(i), "C06", &desc, &mut out);
    heap_checks(&p, "C06", &desc, &mut out);
    if follow && out.is_empty() {
        // the string must still be fully usable
        for op2 in [Op::Push(i as u8, 1), Op::Pop(i as u8), Op::Clone(i as u8), Op::ShrinkFit(i as u8)] {
            if op_enabled(&p, op2, &prof.limits) {
                let rec2 = oracle::step(&mut p, op2, Form::Plain);
                let mut c = Vec::new();
                oracle::c01(&rec2, &p, &mut c);
                oracle::c03(&rec2, &p, &mut c);
                for e in c {
                    out.push(Viol { prop: "C06", oracle: "follow-up", detail: format!("after {desc}, {op2:?}: {}", e.detail) });
                }
            }
        }
    }
    close_check(&mut p, &format!("{desc}, then all handles dropped"), &mut out, "C06");
    let name = format!("{entry:?}").split('(').next().unwrap().to_lowercase();
    cx.report(hist, &out, &name, tk, &format!("size|{desc}"));
}

pub fn size_probe(cx: &ProbeCtx, hist: &[OpId]) {
    let prof = cx.prof;
    let p0 = replay(prof, hist);
    let slots: Vec<(usize, usize, usize)> = (0..prof.k).filter_map(|i| p0.h(i).map(|h| (i, h.len(), h.capacity()))).collect();
    drop(p0);
    let part = if hosted_sizes() { hosted_part() } else { None };
    let mut idx = 0usize;
    for (i, len, cap) in slots {
        for n in size_values(len, cap) {
            for entry in SIZE_ENTRIES {
                if matches!(entry, SizeEntry::ExtendHint(_) | SizeEntry::ExtendUpper(_)) && len >= LMAX {
                    continue;
                }
                idx += 1;
                if part.is_some_and(|(k, n)| idx % n != k) {
                    continue;
                }
                size_case(cx, hist, i, entry, n, n % 7 == 0);
            }
        }
    }
}

/// State-independent size arguments: with_capacity / try_with_capacity / collect with a size hint.
pub fn size_ctor_sweep(cx: &ProbeCtx) {
    for n in size_values(0, INLINE) {
        for which in 0..5u8 {
            let hist: [OpId; 0] = [];
            let mut p = replay(cx.prof, &hist);
            shim::with(|s| s.giant = C06_GIANT);
            let desc = format!("{}({n})", ["try_with_capacity", "with_capacity", "collect(hint, 0 items)", "collect(hint, 1 item)", "collect(hint, 2 items)"][which as usize]);
            let items: Vec<char> = ['x', 'é'].into_iter().take(which.saturating_sub(2) as usize).collect();
            let r: Result<Result<LeanString, ()>, String> = match which {
                0 => quiet(|| LeanString::try_with_capacity(n).map_err(|_| ())),
                1 => quiet(|| LeanString::with_capacity(n)).map(Ok),
                _ => {
                    let it = HugeHint { it: items.clone().into_iter(), hint: n };
                    quiet(move || it.collect::<LeanString>()).map(Ok)
                }
            };
            cx.stats.cases.fetch_add(1, Ordering::Relaxed);
            cx.stats.executions.fetch_add(1, Ordering::Relaxed);
            let mut out = Vec::new();
            let class = match &r {
                Ok(Ok(s)) => {
                    if which < 2 && s.capacity() < n {
                        out.push(Viol { prop: "C06", oracle: "postcondition", detail: format!("{desc}: Ok but capacity {}", s.capacity()) });
                    }
                    let want: String = if which < 2 { String::new() } else { items.iter().collect() };
                    if s.as_str() != want {
                        out.push(Viol { prop: "C06", oracle: "text", detail: format!("{desc}: value reads {:?}", s.as_str()) });
                    }
                    "ok"
                }
                Ok(Err(())) => {
                    if which != 0 {
                        out.push(Viol { prop: "C06", oracle: "wrong-report", detail: format!("{desc}: unexpected Err") });
                    }
                    "reserve-error"
                }
                Err(m) => {
                    if which == 0 || m != ALLOC_MSG {
                        out.push(Viol { prop: "C06", oracle: "wrong-report", detail: format!("{desc}: panicked with {m:?}") });
                    }
                    "panic"
                }
            };
            cx.stats.class(format!("ctor{which}/{class}"));
            if let Ok(Ok(s)) = r {
                p.s[0].h = Some(s);
                p.m[0] = Some(if which < 2 { String::new() } else { items.iter().collect() });
                heap_checks(&p, "C06", &desc, &mut out);
            }
            close_check(&mut p, &format!("{desc}, then dropped"), &mut out, "C06");
            cx.report(&hist, &out, "ctor", "none", &format!("sizector|{desc}"));
        }
    }
}

// -------------------------------------------------------------------------------------
// C07: every byte index

#[derive(Clone, Copy, Debug, PartialEq, Eq)]
pub enum IdxOp {
    Insert,
    InsertStr,
    InsertEmpty,
    Remove,
    Truncate,
}
const IDX_OPS: [IdxOp; 5] = [IdxOp::Insert, IdxOp::InsertStr, IdxOp::InsertEmpty, IdxOp::Remove, IdxOp::Truncate];

fn lean_idx(h: &mut LeanString, op: IdxOp, idx: usize, try_form: bool) -> Result<Result<Out, ()>, String> {
    match (op, try_form) {
        (IdxOp::Insert, false) => quiet(|| h.insert(idx, 'é')).map(|_| Ok(Out::Unit)),
        (IdxOp::Insert, true) => quiet(|| h.try_insert(idx, 'é')).map(|r| r.map(|_| Out::Unit).map_err(|_| ())),
        (IdxOp::InsertStr, false) => quiet(|| h.insert_str(idx, "b€")).map(|_| Ok(Out::Unit)),
        (IdxOp::InsertStr, true) => quiet(|| h.try_insert_str(idx, "b€")).map(|r| r.map(|_| Out::Unit).map_err(|_| ())),
        (IdxOp::InsertEmpty, false) => quiet(|| h.insert_str(idx, "")).map(|_| Ok(Out::Unit)),
        (IdxOp::InsertEmpty, true) => quiet(|| h.try_insert_str(idx, "")).map(|r| r.map(|_| Out::Unit).map_err(|_| ())),
        (IdxOp::Remove, false) => quiet(|| h.remove(idx)).map(|c| Ok(Out::Char(c))),
        (IdxOp::Remove, true) => quiet(|| h.try_remove(idx)).map(|r| r.map(Out::Char).map_err(|_| ())),
        (IdxOp::Truncate, false) => quiet(|| h.truncate(idx)).map(|_| Ok(Out::Unit)),
        (IdxOp::Truncate, true) => quiet(|| h.try_truncate(idx)).map(|r| r.map(|_| Out::Unit).map_err(|_| ())),
    }
}
fn model_idx(m: &mut String, op: IdxOp, idx: usize) -> Result<Out, String> {
    match op {
        IdxOp::Insert => quiet(|| m.insert(idx, 'é')).map(|_| Out::Unit),
        IdxOp::InsertStr => quiet(|| m.insert_str(idx, "b€")).map(|_| Out::Unit),
        IdxOp::InsertEmpty => quiet(|| m.insert_str(idx, "")).map(|_| Out::Unit),
        IdxOp::Remove => quiet(|| m.remove(idx)).map(Out::Char),
        IdxOp::Truncate => quiet(|| m.truncate(idx)).map(|_| Out::Unit),
    }
}

/// the oracle of one index case, shared by the state probe and the text sweep
pub fn index_verdict(desc: &str, lean: &Result<Result<Out, ()>, String>, model: &Result<Out, String>, unchanged: bool, requests: u64, text_after: &[u8], model_after: &str, out: &mut Vec<Viol>) -> &'static str {
    let mut v = |oracle: &'static str, detail: String| out.push(Viol { prop: "C07", oracle, detail });
    let class = match (lean, model) {
        (Err(msg), Err(_)) => {
            if msg == ALLOC_MSG {
                v("wrong-panic", format!("{desc}: panicked with the allocation message"));
            }
            if !unchanged {
                v("effect-after-panic", format!("{desc}: the rejected call changed the pool (texts, capacities, pointers, reference counts or buffer bytes)"));
            }
            if requests != 0 {
                v("allocates-before-panic", format!("{desc}: the rejected call issued {requests} allocator request(s)"));
            }
            "both-panic"
        }
        (Ok(Ok(a)), Ok(b)) => {
            if a != b {
                v("return-value", format!("{desc}: returned {a:?}, String returned {b:?}"));
            }
            if text_after != model_after.as_bytes() {
                v("text", format!("{desc}: reads {:?}, String holds {:?}", String::from_utf8_lossy(text_after), model_after));
            }
            "both-accept"
        }
        (Err(msg), Ok(_)) => {
            v("panics-but-string-accepts", format!("{desc}: panicked ({msg}) where String accepts the index"));
            "mismatch"
        }
        (Ok(_), Err(_)) => {
            v("accepts-but-string-panics", format!("{desc}: accepted an index for which String panics"));
            "mismatch"
        }
        (Ok(Err(())), Ok(_)) => {
            v("reserve-error", format!("{desc}: ReserveError without any refused request"));
            "mismatch"
        }
    };
    if std::str::from_utf8(text_after).is_err() {
        v("utf8", format!("{desc}: invalid UTF-8 afterwards"));
    }
    class
}

pub fn index_probe(cx: &ProbeCtx, hist: &[OpId]) {
    let prof = cx.prof;
    let p0 = replay(prof, hist);
    let slots: Vec<(usize, usize)> = (0..prof.k).filter_map(|i| p0.m[i].as_ref().map(|m| (i, m.len()))).collect();
    drop(p0);
    for (i, len) in slots {
        for op in IDX_OPS {
            for try_form in [false, true] {
                for idx in 0..=len + 2 {
                    let mut p = replay(prof, hist);
                    let pre = p.observe();
                    let key0 = pool_key(&p);
                    let a = pre[i].as_ref().unwrap();
                    let tk = kind_str(Some(a));
                    let desc = format!("slot {i} ({tk}, {:?}): {}{op:?}({idx})", String::from_utf8_lossy(&a.text), if try_form { "try_" } else { "" });
                    cx.trace(hist, &desc);
                    let c0 = shim::with(|s| s.mark());
                    let lean = lean_idx(p.s[i].h.as_mut().unwrap(), op, idx, try_form);
                    let d = oracle::delta(c0, shim::with(|s| s.c));
                    let model = model_idx(p.m[i].as_mut().unwrap(), op, idx);
                    cx.stats.cases.fetch_add(1, Ordering::Relaxed);
                    cx.stats.executions.fetch_add(1, Ordering::Relaxed);
                    let mut out = Vec::new();
                    let unchanged = pool_key(&p) == key0;
                    let after = p.h(i).unwrap().as_bytes().to_vec();
                    let class = index_verdict(&desc, &lean, &model, unchanged, d.requests, &after, p.m[i].as_ref().unwrap(), &mut out);
                    cx.stats.class(format!("{op:?}/{tk}/{class}"));
                    cx.stats.sample(|| format!("{:?} then {desc} -> {class}", prof.render(hist)));
                    others_unchanged(&pre, &p, Some(i), "C07", &desc, &mut out);
                    heap_checks(&p, "C07", &desc, &mut out);
                    close_check(&mut p, &format!("{desc}, then all handles dropped"), &mut out, "C07");
                    cx.report(hist, &out, &format!("{op:?}").to_lowercase(), tk, &format!("index|{desc}"));
                }
            }
        }
    }
}

// -------------------------------------------------------------------------------------
// C13: every m

pub fn shrink_probe(cx: &ProbeCtx, hist: &[OpId]) {
    let prof = cx.prof;
    let p0 = replay(prof, hist);
    let slots: Vec<(usize, usize, usize)> = (0..prof.k).filter_map(|i| p0.h(i).map(|h| (i, h.len(), h.capacity()))).collect();
    drop(p0);
    for (i, len, cap) in slots {
        let mut ms: Vec<Option<usize>> = vec![None];
        ms.extend((0..=cap + 2).map(Some));
        ms.extend(size_values(len, cap).into_iter().filter(|&m| m > cap + 2).map(Some));
        for m in ms {
            for try_form in [false, true] {
                let mut p = replay(prof, hist);
                let pre = p.observe();
                let a = pre[i].clone().unwrap();
                let tk = kind_str(Some(&a));
                let desc = match m {
                    None => format!("slot {i} ({tk}, len {}, cap {}): {}shrink_to_fit()", a.len, a.cap, if try_form { "try_" } else { "" }),
                    Some(m) => format!("slot {i} ({tk}, len {}, cap {}): {}shrink_to({m})", a.len, a.cap, if try_form { "try_" } else { "" }),
                };
                cx.trace(hist, &desc);
                let h = p.s[i].h.as_mut().unwrap();
                let r: Result<Result<(), ()>, String> = match (m, try_form) {
                    (None, false) => quiet(|| h.shrink_to_fit()).map(Ok),
                    (None, true) => quiet(|| h.try_shrink_to_fit().map_err(|_| ())),
                    (Some(m), false) => quiet(|| h.shrink_to(m)).map(Ok),
                    (Some(m), true) => quiet(|| h.try_shrink_to(m).map_err(|_| ())),
                };
                cx.stats.cases.fetch_add(1, Ordering::Relaxed);
                cx.stats.executions.fetch_add(1, Ordering::Relaxed);
                let mut out = Vec::new();
                let b = p.h(i).map(observe).unwrap();
                match &r {
                    Ok(Ok(())) => {
                        let mut vv = |o: &'static str, dd: String| out.push(Viol { prop: "C13", oracle: o, detail: dd });
                        oracle::shrink_post(&a, &b, m.unwrap_or(0), &desc, &mut vv);
                    }
                    other => out.push(Viol { prop: "C13", oracle: "fails", detail: format!("{desc}: did not complete: {other:?}") }),
                }
                cx.stats.class(format!("{tk}/{}", if b.kind != a.kind { "moved-kind" } else if b.cap != a.cap { "resized" } else { "unchanged" }));
                cx.stats.sample(|| format!("{:?} then {desc}: cap {} -> {}", prof.render(hist), a.cap, b.cap));
                others_unchanged(&pre, &p, Some(i), "C13", &desc, &mut out);
                heap_checks(&p, "C13", &desc, &mut out);
                close_check(&mut p, &format!("{desc}, then all handles dropped"), &mut out, "C13");
                cx.report(hist, &out, if m.is_none() { "shrink_to_fit" } else { "shrink_to" }, tk, &format!("shrink|{desc}"));
            }
        }
    }
}

pub fn idx_name(op: usize) -> &'static str {
    ["insert", "insert_str", "insert_empty", "remove", "truncate"][op]
}
pub fn idx_pair(h: &mut LeanString, m: &mut String, op: usize, idx: usize, try_form: bool) -> (Result<Result<Out, ()>, String>, Result<Out, String>) {
    (lean_idx(h, IDX_OPS[op], idx, try_form), model_idx(m, IDX_OPS[op], idx))
}
