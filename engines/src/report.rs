//! Evidence and replay files.
use crate::explore::{Found, Profile, RunResult};
use serde_json::{Value, json};
use std::collections::BTreeMap;

#[derive(Default)]
pub struct Report {
    pub property: String,
    pub tier: String,
    pub seed: u64,
    pub level: String,
    pub states: u64,
    pub transitions: u64,
    pub evaluations: u64,
    pub runs: Vec<Value>,
    pub probes: Vec<Value>,
    pub samples: Vec<Value>,
    pub outcomes: BTreeMap<String, u64>,
    pub caps: Vec<String>,
    pub assumptions: Vec<String>,
    pub bounds: Vec<String>,
    pub rule: String,
    pub exhaustive: bool,
    pub machinery_errors: Vec<String>,
    /// extra keys copied into `coverage`
    pub extra: BTreeMap<String, Value>,
}

impl Report {
    pub fn new(property: &str, tier: &str, seed: u64, level: &str) -> Self {
        Report { property: property.into(), tier: tier.into(), seed, level: level.into(), exhaustive: true, ..Default::default() }
    }

    pub fn add_run(&mut self, prof: &Profile, roots: &str, depth: usize, r: &RunResult) {
        self.states += r.states;
        self.transitions += r.transitions;
        for (k, v) in &r.outcomes {
            *self.outcomes.entry(k.clone()).or_default() += v;
        }
        let completed = r.levels.iter().filter(|l| l.complete).count();
        if r.capped {
            self.exhaustive = false;
            self.caps.push(format!("profile {} ({roots}): wall cap hit in level {}; levels 1..={} fully covered", prof.name, completed + 1, completed));
        }
        self.runs.push(json!({
            "profile": prof.name, "pool_slots": prof.k, "roots": roots, "alphabet_ops": prof.n_enabled,
            "depth_requested": depth, "depth_completed": completed,
            "states": r.states, "transitions": r.transitions, "state_probes": r.state_probes,
            "levels": r.levels.iter().map(|l| json!({"level": l.level, "new_states": l.new_states, "transitions": l.transitions, "digest": format!("{:016x}", l.digest), "pruned": l.pruned, "secs": (l.secs * 100.0).round() / 100.0, "complete": l.complete})).collect::<Vec<_>>(),
        }));
        // samples: a few of the representative histories actually explored
        if let Some(lv) = r.stored.iter().rev().find(|l| !l.is_empty()) {
            for idx in [0, lv.len() / 2, lv.len() - 1] {
                if self.samples.len() < 12 {
                    self.samples.push(json!({"profile": prof.name, "history": prof.render(&lv[idx])}));
                }
            }
        }
    }

    pub fn add_probe(&mut self, v: Value) {
        if let Some(n) = v.get("cases").and_then(|c| c.as_u64()) {
            self.evaluations += n;
        }
        if v.get("complete").and_then(|c| c.as_bool()) == Some(false) {
            self.exhaustive = false;
            self.caps.push(format!("probe {}: wall cap hit", v.get("name").and_then(|n| n.as_str()).unwrap_or("?")));
        }
        self.probes.push(v);
    }

    pub fn to_json(&self, wall: f64, findings: &[(Found, String)]) -> Value {
        let mut cov = json!({
            "exhaustive": self.exhaustive,
            "rule": self.rule,
            "bounds": self.bounds,
            "runs": self.runs,
            "probes": self.probes,
            "samples": self.samples,
            "distinct_outcomes": self.outcomes.len(),
            "outcome_classes": self.outcomes,
            "caps_hit": self.caps,
        });
        let evals = self.transitions + self.evaluations;
        let c = cov.as_object_mut().unwrap();
        for (k, v) in &self.extra {
            c.insert(k.clone(), v.clone());
        }
        if self.level == "model_checking" {
            c.insert("states".into(), json!(self.states));
            c.insert("transitions".into(), json!(evals));
            c.insert("traces_validated_against_impl".into(), json!(evals));
        }
        c.insert("evaluations".into(), json!(evals));
        c.insert("distinct_nontrivial".into(), json!(self.states.max(self.outcomes.len() as u64)));
        json!({
            "property_id": self.property,
            "tier": self.tier,
            "seed": self.seed,
            "level": self.level,
            "coverage": cov,
            "assumptions": self.assumptions,
            "wall_s": (wall * 100.0).round() / 100.0,
            "violations": findings.len(),
            "findings": findings.iter().map(|(f, path)| json!({"signature": f.sig, "detail": f.detail, "replay": path, "occurrences": f.count, "history": f.history, "profile": f.profile, "extra": f.extra})).collect::<Vec<_>>(),
            "machinery_errors": self.machinery_errors,
        })
    }
}

pub fn write_replay(dir: &str, engine: &str, f: &Found, tier: &str) -> String {
    let h = crate::pool::hash128(f.sig.as_bytes());
    let path = format!("{dir}/{}-{:08x}.json", f.prop, (h as u32));
    // a plain unit test for history findings (text / return-value divergences show up in it;
    // heap-accounting findings need the shadow heap and are replayed with `./check replay`)
    let unit_test = crate::plans::profile_by_name(f.profile).map(|prof| {
        let ops: Vec<crate::pool::Op> = f.hist_ids.iter().map(|&i| prof.table[i as usize]).collect();
        crate::unittest::unit_test(&format!("replay_{}_{:08x}", f.prop.to_lowercase(), h as u32), prof.k, &ops)
    });
    let v = json!({
        "engine": engine,
        "property": f.prop,
        "signature": f.sig,
        "profile": f.profile,
        "tier": tier,
        "history": f.history,
        "extra": f.extra,
        "detail": f.detail,
        "occurrences_in_run": f.count,
        "how_to_replay": format!("./check replay {path}"),
        "unit_test": unit_test,
    });
    let _ = std::fs::create_dir_all(dir);
    let _ = std::fs::write(&path, serde_json::to_string_pretty(&v).unwrap());
    path
}
