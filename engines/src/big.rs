//! Texts around the largest length a heap handle keeps in its second word.
//!
//! On 32-bit targets a heap handle has three bytes for the length: lengths up to
//! B = 2^24 - 2 are stored in the handle, longer ones in an extra word in front of the heap
//! header, and a buffer has that extra word iff its *capacity* exceeds B. The branches that
//! deal with this exist only on 32-bit targets, so this exploration is run hosted by Miri for
//! such a target (on 64-bit targets B = 2^56 - 2 cannot be reached and nothing is explored).
//!
//! Explored: every sequence of at most `depth` operations of the alphabet below on two slots,
//! from every root (texts of B-2..=B+2 bytes; buffers of capacity B, B+1, B+3 holding nothing,
//! 10 bytes, B-1 bytes or capacity-many bytes; borrowed static texts of B-1, B, B+1 bytes), each executed on the real crate next to a `String`
//! model. Oracle after every step: returned value / panic as `String`; every slot reads back
//! the model's text (length and bytes); capacity >= len (and >= len + n after reserve(n), exact
//! after a shrink of an over-allocated heap buffer); at the end every handle is dropped and the
//! shadow heap must be empty, every block released once with its own layout. Hosted by Miri,
//! any undefined behaviour in the crate stops the run at the recorded case.
use crate::explore::{Findings, Profile};
use crate::oracle::Viol;
use crate::pool::{Form, WIDE_LIMITS, quiet};
use crate::probes::ProbeStats;
use crate::shim;
use lean_string::LeanString;
use std::sync::atomic::Ordering;

pub const B: usize = (1usize << (usize::BITS - 8)) - 2;

pub fn applicable() -> bool {
    usize::BITS == 32
}

pub fn profile() -> Profile {
    Profile { name: "big", k: 2, table: vec![], n_enabled: 0, form: Form::Plain, limits: WIDE_LIMITS }
}

/// exactly `n` bytes (n >= 8): "<€", a run of 'a', "é>"
pub fn big_text(n: usize) -> String {
    let mut s = String::with_capacity(n);
    s.push_str("<€");
    s.push_str(&"a".repeat(n - 7));
    s.push_str("é>");
    debug_assert_eq!(s.len(), n);
    s
}

#[derive(Clone, Copy, Debug, PartialEq)]
pub enum Fill {
    Empty,
    Small,
    Near,
    Full,
}

#[derive(Clone, Copy, Debug, PartialEq)]
pub enum Root {
    /// `LeanString::from(text of B + d bytes)`
    Text(i8),
    /// `with_capacity(B + d)`, then `push_str` of a text chosen by `Fill`
    Cap(i8, Fill),
    /// `from_static_str(text of B + d bytes)` (B + 1 is the longest static text a 32-bit handle takes)
    Static(i8),
}

#[derive(Clone, Copy, Debug, PartialEq)]
pub enum BOp {
    Push(u8),
    PushWide(u8),
    PushStr(u8),
    Pop(u8),
    TruncSmall(u8),
    TruncLast(u8),
    TruncB(u8),
    Clear(u8),
    Insert0(u8),
    /// `insert_str(len / 2, "0123456789")` (the middle of the texts is ASCII)
    InsertStrMid(u8),
    /// `extend(["b", "cd"])`
    ExtendStrs(u8),
    Remove0(u8),
    Reserve1(u8),
    ReserveHalf(u8),
    /// `try_reserve(usize::MAX - len)`: must be refused and change nothing
    TryReserveMax(u8),
    /// `try_reserve(isize::MAX - len - 4)`: header + capacity is past the allocation limit
    TryReserveLimit(u8),
    ShrinkFit(u8),
    ShrinkToB1(u8),
    Drop(u8),
    /// clone slot i into the other (empty) slot
    Clone(u8),
    /// `other.clone_from(&slot i)`
    CloneFrom(u8),
}

pub fn roots() -> Vec<Root> {
    let mut v: Vec<Root> = (-2..=2).map(Root::Text).collect();
    for d in [0i8, 1, 3] {
        for f in [Fill::Empty, Fill::Small, Fill::Near, Fill::Full] {
            v.push(Root::Cap(d, f));
        }
    }
    v.extend((-1..=1).map(Root::Static));
    v
}

/// the three borrowed texts, created once per process (they are never released)
fn static_text(d: i8) -> &'static str {
    static TEXTS: std::sync::OnceLock<Vec<&'static str>> = std::sync::OnceLock::new();
    TEXTS.get_or_init(|| (-1..=1isize).map(|d| &*Box::leak(big_text((B as isize + d) as usize).into_boxed_str())).collect())[(d + 1) as usize]
}

fn slot_ops(i: u8) -> Vec<BOp> {
    use BOp::*;
    vec![Push(i), PushWide(i), PushStr(i), Pop(i), TruncSmall(i), TruncLast(i), TruncB(i), Clear(i), Insert0(i), InsertStrMid(i), ExtendStrs(i), Remove0(i), Reserve1(i), ReserveHalf(i), TryReserveMax(i), TryReserveLimit(i), ShrinkFit(i), ShrinkToB1(i), Drop(i)]
}

/// every sequence of at most `depth` applicable operations (applicability depends only on which
/// slots are occupied, which the sequence itself determines)
pub fn sequences(depth: usize) -> Vec<Vec<BOp>> {
    fn go(occ: [bool; 2], depth: usize, cur: &mut Vec<BOp>, out: &mut Vec<Vec<BOp>>) {
        out.push(cur.clone());
        if depth == 0 {
            return;
        }
        for i in 0..2u8 {
            if !occ[i as usize] {
                continue;
            }
            let mut ops = slot_ops(i);
            if occ[1 - i as usize] {
                ops.push(BOp::CloneFrom(i));
            } else {
                ops.push(BOp::Clone(i));
            }
            for op in ops {
                let mut o = occ;
                match op {
                    BOp::Drop(i) => o[i as usize] = false,
                    BOp::Clone(i) => o[1 - i as usize] = true,
                    _ => {}
                }
                cur.push(op);
                go(o, depth - 1, cur, out);
                cur.pop();
            }
        }
    }
    let mut out = Vec::new();
    go([true, false], depth, &mut Vec::new(), &mut out);
    out
}

pub fn render(root: Root, ops: &[BOp]) -> String {
    let mut s = format!("{root:?}");
    for o in ops {
        s.push_str(&format!(" {o:?}"));
    }
    s
}

struct St {
    s: [Option<LeanString>; 2],
    m: [Option<String>; 2],
}

fn build(root: Root) -> St {
    let (s, m) = match root {
        Root::Text(d) => {
            let t = big_text((B as isize + d as isize) as usize);
            (LeanString::from(t.as_str()), t)
        }
        Root::Static(d) => {
            let t = static_text(d);
            (LeanString::from_static_str(t), t.to_string())
        }
        Root::Cap(d, f) => {
            let c = (B as isize + d as isize) as usize;
            let mut s = LeanString::with_capacity(c);
            let mut m = String::new();
            let n = match f {
                Fill::Empty => 0,
                Fill::Small => 10,
                Fill::Near => B - 1,
                Fill::Full => c,
            };
            if n > 0 {
                let t = big_text(n);
                s.push_str(&t);
                m.push_str(&t);
            }
            (s, m)
        }
    };
    St { s: [Some(s), None], m: [Some(m), None] }
}

/// One operation on both sides; returns a description of any disagreement in the outcome.
fn apply(st: &mut St, op: BOp, out: &mut Vec<(&'static str, String)>) {
    use BOp::*;
    macro_rules! both {
        ($i:expr, $s:ident, $m:ident, $se:expr, $me:expr) => {{
            let i = $i as usize;
            let a = {
                let $s = st.s[i].as_mut().unwrap();
                quiet(|| format!("{:?}", $se))
            };
            let b = {
                let $m = st.m[i].as_mut().unwrap();
                quiet(|| format!("{:?}", $me))
            };
            match (&a, &b) {
                (Ok(x), Ok(y)) if x == y => {}
                (Err(_), Err(_)) => {}
                _ => out.push(("outcome", format!("{op:?}: LeanString gives {a:?}, String gives {b:?}"))),
            }
        }};
    }
    match op {
        Push(i) => both!(i, s, m, s.push('a'), m.push('a')),
        PushWide(i) => both!(i, s, m, s.push('€'), m.push('€')),
        PushStr(i) => both!(i, s, m, s.push_str("0123456789"), m.push_str("0123456789")),
        Pop(i) => both!(i, s, m, s.pop(), m.pop()),
        TruncSmall(i) => both!(i, s, m, s.truncate(5), m.truncate(5)),
        TruncLast(i) => both!(i, s, m, { let n = s.len().saturating_sub(1); s.truncate(n) }, { let n = m.len().saturating_sub(1); m.truncate(n) }),
        TruncB(i) => both!(i, s, m, s.truncate(B), m.truncate(B)),
        Clear(i) => both!(i, s, m, s.clear(), m.clear()),
        Insert0(i) => both!(i, s, m, s.insert(0, 'y'), m.insert(0, 'y')),
        InsertStrMid(i) => both!(i, s, m, { let at = if s.len() >= 16 { s.len() / 2 } else { 0 }; s.insert_str(at, "0123456789") }, { let at = if m.len() >= 16 { m.len() / 2 } else { 0 }; m.insert_str(at, "0123456789") }),
        ExtendStrs(i) => both!(i, s, m, s.extend(["b", "cd"]), m.extend(["b", "cd"])),
        Remove0(i) => both!(i, s, m, if s.is_empty() { None } else { Some(s.remove(0)) }, if m.is_empty() { None } else { Some(m.remove(0)) }),
        Reserve1(i) | ReserveHalf(i) => {
            let n = if matches!(op, Reserve1(_)) { 1 } else { B / 2 };
            let s = st.s[i as usize].as_mut().unwrap();
            match quiet(|| s.reserve(n)) {
                Ok(()) => {
                    if s.capacity() < s.len() + n {
                        out.push(("reserve-post", format!("{op:?}: capacity {} < len {} + {n}", s.capacity(), s.len())));
                    }
                }
                Err(e) => out.push(("outcome", format!("{op:?}: reserve({n}) panicked: {e}"))),
            }
        }
        TryReserveMax(i) | TryReserveLimit(i) => {
            let s = st.s[i as usize].as_mut().unwrap();
            let (len, cap) = (s.len(), s.capacity());
            let n = if matches!(op, TryReserveMax(_)) { usize::MAX - len } else { (isize::MAX as usize).saturating_sub(len + 4) };
            match quiet(|| s.try_reserve(n).is_ok()) {
                Ok(true) => {
                    if s.capacity() < len.saturating_add(n) {
                        out.push(("reserve-post", format!("{op:?}: try_reserve({n}) returned Ok with capacity {}", s.capacity())));
                    }
                }
                Ok(false) => {
                    if s.len() != len || s.capacity() != cap {
                        out.push(("reserve-refused", format!("{op:?}: refused try_reserve({n}) changed len/capacity {len}/{cap} -> {}/{}", s.len(), s.capacity())));
                    }
                }
                Err(e) => out.push(("outcome", format!("{op:?}: try_reserve({n}) panicked: {e}"))),
            }
        }
        ShrinkFit(i) | ShrinkToB1(i) => {
            let s = st.s[i as usize].as_mut().unwrap();
            let (len, cap, heap) = (s.len(), s.capacity(), s.is_heap_allocated());
            let min = if matches!(op, ShrinkFit(_)) { 0 } else { B + 1 };
            match quiet(|| if min == 0 { s.shrink_to_fit() } else { s.shrink_to(min) }) {
                Ok(()) => {
                    let want = len.max(min);
                    if s.capacity() > cap.max(2 * std::mem::size_of::<usize>()) || s.capacity() < s.len() {
                        out.push(("shrink-post", format!("{op:?}: capacity {cap} -> {} with len {len}", s.capacity())));
                    }
                    if heap && cap > want && s.is_heap_allocated() && s.capacity() != want {
                        out.push(("shrink-exact", format!("{op:?}: capacity {cap} -> {} , expected exactly {want} (len {len})", s.capacity())));
                    }
                }
                Err(e) => out.push(("outcome", format!("{op:?}: shrink panicked: {e}"))),
            }
        }
        Drop(i) => {
            st.s[i as usize] = None;
            st.m[i as usize] = None;
        }
        Clone(i) => {
            let (i, o) = (i as usize, 1 - i as usize);
            st.s[o] = st.s[i].clone();
            st.m[o] = st.m[i].clone();
        }
        CloneFrom(i) => {
            let (i, o) = (i as usize, 1 - i as usize);
            let src = st.s[i].take().unwrap();
            st.s[o].as_mut().unwrap().clone_from(&src);
            st.s[i] = Some(src);
            let srcm = st.m[i].take().unwrap();
            st.m[o].as_mut().unwrap().clone_from(&srcm);
            st.m[i] = Some(srcm);
        }
    }
}

fn check_state(st: &St, borrowed_ok: bool, after: &str, out: &mut Vec<(&'static str, String)>) {
    for i in 0..2 {
        match (&st.s[i], &st.m[i]) {
            (Some(s), Some(m)) => {
                if s.len() != m.len() || s.is_empty() != m.is_empty() {
                    out.push(("len", format!("after {after}: slot {i} has len {}, String has {}", s.len(), m.len())));
                } else if s.as_str() != m.as_str() || s.as_bytes() != m.as_bytes() {
                    let at = s.as_bytes().iter().zip(m.as_bytes()).position(|(a, b)| a != b);
                    out.push(("text", format!("after {after}: slot {i} (len {}) differs from the String model at byte {at:?}", s.len())));
                }
                if s.capacity() < s.len() {
                    out.push(("capacity", format!("after {after}: slot {i} has capacity {} < len {}", s.capacity(), s.len())));
                }
                if s.len() > 2 * std::mem::size_of::<usize>() && !s.is_heap_allocated() && !borrowed_ok {
                    out.push(("storage", format!("after {after}: slot {i} holds {} bytes but is not heap allocated", s.len())));
                }
            }
            (None, None) => {}
            _ => out.push(("occupancy", format!("after {after}: slot {i} occupancy differs (harness)"))),
        }
    }
}

/// Which oracles belong to which property: the text-level ones are C01's, the heap discipline is
/// C03's; any other property gets all of them.
fn owns(prop: &str, oracle: &str) -> bool {
    let heapish = matches!(oracle, "heap" | "leak-at-end" | "close");
    match prop {
        "C01" => !heapish,
        "C03" => heapish || oracle == "root",
        _ => true,
    }
}

/// Executes one case; returns (oracle, detail) pairs.
pub fn run_case(root: Root, ops: &[BOp]) -> Vec<(&'static str, String)> {
    let mut out = Vec::new();
    shim::with(|s| s.reset());
    let mut st = match quiet(|| build(root)) {
        Ok(st) => st,
        Err(e) => {
            out.push(("root", format!("building {root:?} panicked: {e}")));
            return out;
        }
    };
    let borrowed_ok = matches!(root, Root::Static(_));
    check_state(&st, borrowed_ok, "the root", &mut out);
    for (n, &op) in ops.iter().enumerate() {
        if !out.is_empty() {
            break;
        }
        apply(&mut st, op, &mut out);
        check_state(&st, borrowed_ok, &format!("step {} ({op:?})", n + 1), &mut out);
    }
    // release everything; a corrupted handle may make this panic
    let closing = quiet(move || drop(st));
    if let Err(e) = closing {
        out.push(("close", format!("dropping the handles panicked: {e}")));
    }
    let (live, errs) = shim::with(|s| (s.live_blocks(), s.errors.clone()));
    if live != 0 && out.is_empty() {
        out.push(("leak-at-end", format!("{live} block(s) still allocated after every handle was dropped")));
    }
    if let Some(e) = errs.first() {
        out.push(("heap", e.clone()));
    }
    out
}

/// All cases of this part; violations are filed under `prop`.
pub fn sweep(prop: &'static str, findings: &Findings, stats: &ProbeStats, depth: usize, part: Option<(usize, usize)>) -> (u64, u64) {
    let prof = profile();
    let seqs = sequences(depth);
    let mut n = 0u64;
    let mut total = 0u64;
    for root in roots() {
        for ops in &seqs {
            total += 1;
            if let Some((k, of)) = part {
                if (total as usize - 1) % of != k {
                    continue;
                }
            }
            let case = render(root, ops);
            crate::trace(|| serde_json::json!({"profile": "big", "history": [], "case": case}).to_string());
            let t0 = std::time::Instant::now();
            let viols = run_case(root, ops);
            if std::env::var_os("LSVERIF_TRACE_ECHO").is_some() {
                eprintln!("   {:.2}s {case}", t0.elapsed().as_secs_f64());
            }
            n += 1;
            stats.cases.fetch_add(1, Ordering::Relaxed);
            stats.executions.fetch_add(ops.len() as u64 + 1, Ordering::Relaxed);
            stats.class(format!("{}/{}", match root { Root::Text(_) => "text", Root::Cap(..) => "with_capacity", Root::Static(_) => "static" }, ops.last().map(|o| format!("{o:?}")).unwrap_or_else(|| "root".into()).split('(').next().unwrap()));
            for (oracle, detail) in viols {
                if !owns(prop, oracle) {
                    continue;
                }
                let v = Viol { prop, oracle, detail: format!("[{case}] {detail}") };
                let opk = ops.last().map(|o| format!("{o:?}")).unwrap_or_else(|| "root".into());
                findings.add(&prof, &[], &v, opk.split('(').next().unwrap(), match root { Root::Text(_) => "big-text", Root::Cap(..) => "big-capacity", Root::Static(_) => "big-static" }, &case);
            }
        }
    }
    stats.sample(|| format!("{} roots x {} sequences (depth <= {depth}); B = {B}", roots().len(), seqs.len()));
    (n, total)
}

/// Re-executes the case recorded in a finding's `extra`.
pub fn replay(prop: &'static str, findings: &Findings, case: &str, verbose: bool) -> Result<(), String> {
    if !applicable() {
        return Err(format!("the big-length cases exist on 32-bit targets only (this build: {} bit); replay it hosted by Miri for a 32-bit target", usize::BITS));
    }
    let prof = profile();
    // "Cap(1, Full) Pop(0) Clone(0)": the root may contain a space
    let all_ops: Vec<BOp> = (0..2u8).flat_map(|i| slot_ops(i).into_iter().chain([BOp::Clone(i), BOp::CloneFrom(i)])).collect();
    let root = roots().into_iter().find(|r| case == format!("{r:?}") || case.starts_with(&format!("{r:?} "))).ok_or_else(|| format!("case {case:?}: unknown root"))?;
    let mut ops = Vec::new();
    for tok in case[format!("{root:?}").len()..].split_whitespace() {
        ops.push(*all_ops.iter().find(|o| format!("{o:?}") == tok).ok_or_else(|| format!("case {case:?}: unknown operation {tok}"))?);
    }
    let viols = run_case(root, &ops);
    for (oracle, detail) in viols {
        if !owns(prop, oracle) {
            continue;
        }
        if verbose {
            println!("          VIOLATED {prop}/{oracle}: {detail}");
        }
        let v = Viol { prop, oracle, detail: format!("[{case}] {detail}") };
        let opk = ops.last().map(|o| format!("{o:?}")).unwrap_or_else(|| "root".into());
        findings.add(&prof, &[], &v, opk.split('(').next().unwrap(), match root { Root::Text(_) => "big-text", Root::Cap(..) => "big-capacity", Root::Static(_) => "big-static" }, case);
    }
    Ok(())
}
