pub mod explore;
pub mod oracle;
pub mod plans;
pub mod probes;
pub mod report;
pub mod pool;
pub mod profiles;
pub mod shim;

pub fn init() {
    shim::install();
    pool::install_panic_hook();
}
