pub mod big;
pub mod explore;
pub mod oracle;
pub mod plans;
pub mod probes;
pub mod report;
pub mod pool;
pub mod profiles;
pub mod shim;
pub mod sweeps;
pub mod tlalloc;
pub mod unittest;

pub fn init() {
    shim::install();
    pool::install_panic_hook();
}

use std::sync::OnceLock;
static TRACE: OnceLock<std::fs::File> = OnceLock::new();

/// Crash-trace mode: the description of the case about to be executed is written (in place)
/// to a file, so that a process abort can be pinned on a case. Enabled by `--trace-file`.
pub fn enable_trace(path: &str) {
    let f = std::fs::OpenOptions::new().create(true).write(true).truncate(true).open(path).expect("trace file");
    let _ = TRACE.set(f);
}
pub fn tracing() -> bool {
    TRACE.get().is_some()
}
#[inline]
pub fn trace(desc: impl FnOnce() -> String) {
    if let Some(f) = TRACE.get() {
        use std::os::unix::fs::FileExt;
        let mut s = desc();
        s.truncate(3900);
        if std::env::var_os("LSVERIF_TRACE_ECHO").is_some() {
            eprintln!("CASE {s}");
        }
        let mut buf = vec![b' '; 4096];
        buf[..s.len()].copy_from_slice(s.as_bytes());
        buf[4095] = b'\n';
        let _ = f.write_at(&buf, 0);
    }
}

/// 64-bit counters for targets without 64-bit atomics (32-bit PowerPC, hosted by Miri).
#[cfg(target_has_atomic = "64")]
pub use std::sync::atomic::AtomicU64 as Counter64;
#[cfg(not(target_has_atomic = "64"))]
#[derive(Default)]
pub struct Counter64(std::sync::Mutex<u64>);
#[cfg(not(target_has_atomic = "64"))]
impl Counter64 {
    pub fn new(v: u64) -> Self {
        Counter64(std::sync::Mutex::new(v))
    }
    pub fn load(&self, _: std::sync::atomic::Ordering) -> u64 {
        *self.0.lock().unwrap()
    }
    pub fn into_inner(self) -> u64 {
        self.0.into_inner().unwrap()
    }
    pub fn fetch_add(&self, n: u64, _: std::sync::atomic::Ordering) -> u64 {
        let mut g = self.0.lock().unwrap();
        let old = *g;
        *g = old.wrapping_add(n);
        old
    }
}
