pub mod explore;
pub mod oracle;
pub mod pool;
pub mod profiles;
pub mod shim;

pub fn init() {
    shim::install();
    pool::install_panic_hook();
}
