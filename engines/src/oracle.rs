//! Oracles: one function per property, each a predicate over one executed step (or one
//! reached state). An oracle demands exactly what the property statement says.
use crate::pool::*;
use crate::shim::{self, Counters};
use lean_string::{LeanString, verif_hooks};
use std::borrow::Cow;
use std::collections::HashMap;

#[derive(Clone, Debug)]
pub struct Viol {
    pub prop: &'static str,
    pub oracle: &'static str,
    pub detail: String,
}

pub struct StepRec {
    pub op: Op,
    pub form: Form,
    pub pre: Vec<Option<SlotObs>>,
    pub post: Vec<Option<SlotObs>>,
    pub lean: Outcome,
    pub expect: Expect,
    pub d: Counters,
    pub sizes: Vec<usize>,
    pub new_slot: Option<usize>,
    pub shim_errors: Vec<String>,
    /// bytes the operation appends/inserts/reserves in one reservation (C11/C12)
    pub additional: Option<usize>,
    /// argument of shrink_to / 0 for shrink_to_fit (C13)
    pub shrink_m: Option<usize>,
}

pub fn delta(a: Counters, b: Counters) -> Counters {
    Counters { requests: b.requests - a.requests, allocs: b.allocs - a.allocs, reallocs: b.reallocs - a.reallocs, frees: b.frees - a.frees, refused: b.refused - a.refused, notes: b.notes - a.notes }
}

pub fn target_kind(rec: &StepRec) -> &'static str {
    let t = match rec.op.target() {
        Some(t) => t,
        None => return "none",
    };
    match rec.pre.get(t).and_then(|o| o.as_ref()) {
        None => "none",
        Some(o) => match o.kind {
            Kind::Inline => "inline",
            Kind::Static => "static",
            Kind::Heap => {
                if o.rc == 1 {
                    "heap-unique"
                } else {
                    "heap-shared"
                }
            }
        },
    }
}

/// bytes added by a single-reservation growing operation
pub fn additional_of(p: &Pool, op: Op) -> Option<usize> {
    use Op::*;
    Some(match op {
        Push(_, c) | Insert(_, _, c) => CHARS[c as usize].len_utf8(),
        PushStr(_, s) | InsertStr(_, _, s) => texts(|t| t.strs[s as usize].len()),
        PushAscii(_, n) => n as usize,
        AddAssign(_) | Add(_) | WriteFmt(_) => 2,
        ExtendChars(_) | ExtendFiltered(_) | ExtendLying(..) => 4,
        ExtendStrs(_) => 3,
        ExtendLean(_, s) => p.m[s as usize].as_ref().map_or(0, |m| m.len()),
        Reserve(_, k) => texts(|t| t.reserves[k as usize]),
        _ => {
            let _ = p;
            return None;
        }
    })
}

fn succeeded(rec: &StepRec) -> bool {
    matches!(rec.lean, Outcome::Done(_))
}

/// Runs one step on the pool and records everything the oracles need.
pub fn step(p: &mut Pool, op: Op, form: Form) -> StepRec {
    let pre = p.observe();
    let additional = additional_of(p, op);
    let shrink_m = match op {
        Op::ShrinkTo(i, k) => Some(shrink_arg(p.h(i as usize).unwrap(), k)),
        Op::ShrinkFit(_) => Some(0),
        _ => None,
    };
    let new_slot = if op.is_ctor() || op.is_clone() { p.empty_slot() } else { None };
    let (c0, e0) = shim::with(|s| (s.mark(), s.errors.len()));
    let (lean, expect) = exec(p, op, form);
    let (c1, sizes, mut errs) = shim::with(|s| (s.c, s.sizes.clone(), s.errors[e0..].to_vec()));
    let post = p.observe();
    // observing touches the buffers (as_bytes/capacity notes): errors raised there are
    // reads of the reachable state and belong to the step too
    shim::with(|s| {
        errs.extend(s.errors[e0 + errs.len()..].iter().cloned());
        errs.extend(s.audit());
    });
    StepRec { op, form, pre, post, lean, expect, d: delta(c0, c1), sizes, new_slot, shim_errors: errs, additional, shrink_m }
}

// ---------------------------------------------------------------------------------------
// C01
pub fn c01(rec: &StepRec, p: &Pool, out: &mut Vec<Viol>) {
    let mut v = |oracle: &'static str, detail: String| out.push(Viol { prop: "C01", oracle, detail });
    let ok = match (&rec.lean, &rec.expect) {
        (Outcome::Done(a), Expect::Done(b)) | (Outcome::Done(a), Expect::Absorb(b)) => a == b,
        (Outcome::Panic(m), Expect::Panic) => m != ALLOC_MSG,
        (Outcome::ReserveErr, Expect::Refuse) => rec.form == Form::Try,
        (Outcome::Panic(m), Expect::Refuse) => rec.form == Form::Plain && m == ALLOC_MSG,
        _ => false,
    };
    if !ok {
        v("outcome", format!("{:?} returned {:?}, the reference demands {:?}", rec.op, rec.lean, rec.expect));
    }
    for i in 0..p.k {
        match (p.h(i), p.m[i].as_ref()) {
            (None, None) => {}
            (Some(h), Some(m)) => {
                let o = rec.post[i].as_ref().unwrap();
                if o.text != m.as_bytes() || o.len != m.len() {
                    v("text", format!("slot {i} reads {:?} (len {}), String holds {:?} (len {}) after {:?}", String::from_utf8_lossy(&o.text), o.len, m, m.len(), rec.op));
                } else if h.is_empty() != m.is_empty() || h.as_str() != m.as_str() || h.as_bytes().len() != m.len() {
                    v("accessors", format!("slot {i}: is_empty/as_str/as_bytes disagree with String after {:?}", rec.op));
                }
                if std::str::from_utf8(&o.text).is_err() {
                    v("utf8", format!("slot {i} holds invalid UTF-8 after {:?}", rec.op));
                }
            }
            (a, b) => v("slot", format!("slot {i}: handle present={} model present={} after {:?}", a.is_some(), b.is_some(), rec.op)),
        }
    }
}

// C02: every handle that is not the target is exactly as before
pub fn c02(rec: &StepRec, p: &Pool, out: &mut Vec<Viol>) {
    let mut v = |oracle: &'static str, detail: String| out.push(Viol { prop: "C02", oracle, detail });
    let target = rec.op.target();
    for i in 0..p.k {
        if Some(i) == target || Some(i) == rec.new_slot {
            continue;
        }
        match (&rec.pre[i], &rec.post[i]) {
            (None, None) => {}
            (Some(a), Some(b)) => {
                if a.text != b.text || a.len != b.len {
                    v("other-text", format!("{:?} on slot {:?} changed slot {i} from {:?} to {:?}", rec.op, target, String::from_utf8_lossy(&a.text), String::from_utf8_lossy(&b.text)));
                } else if a.ptr != b.ptr || a.cap != b.cap || a.kind != b.kind || a.raw != b.raw {
                    v("other-storage", format!("{:?} on slot {:?} moved/resized slot {i}: ptr {:#x}->{:#x} cap {}->{} kind {:?}->{:?}", rec.op, target, a.ptr, b.ptr, a.cap, b.cap, a.kind, b.kind));
                }
            }
            _ => v("other-slot", format!("{:?} made slot {i} appear/disappear", rec.op)),
        }
    }
    if !texts(|t| t.statics_intact()) {
        v("static-bytes", format!("{:?} modified the bytes of a 'static text", rec.op));
    }
    if !p.sentinels_intact() {
        v("sentinel", format!("{:?} wrote outside a 16-byte handle", rec.op));
    }
}

// C03: shadow heap clean, refcount == handles, live blocks == referenced buffers
pub fn c03(rec: &StepRec, p: &Pool, out: &mut Vec<Viol>) {
    let mut v = |oracle: &'static str, detail: String| out.push(Viol { prop: "C03", oracle, detail });
    if let Some(e) = rec.shim_errors.first() {
        let oracle = if e.contains("use after free") || e.contains("already freed") || e.contains("already released") {
            "use-after-free"
        } else if e.contains("layout mismatch") {
            "layout"
        } else if e.contains("outside block") || e.contains("guard zone") {
            "out-of-bounds"
        } else if e.contains("poison") {
            "write-after-free"
        } else {
            "shadow-heap"
        };
        v(oracle, format!("{:?}: {} ({} shadow-heap errors)", rec.op, e, rec.shim_errors.len()));
    }
    heap_accounting(p, &format!("{:?}", rec.op), out);
}

pub fn heap_accounting(p: &Pool, what: &str, out: &mut Vec<Viol>) {
    let mut v = |oracle: &'static str, detail: String| out.push(Viol { prop: "C03", oracle, detail });
    let mut handles: HashMap<usize, usize> = HashMap::new();
    for i in 0..p.k {
        if let Some(h) = p.h(i) {
            if h.is_heap_allocated() {
                *handles.entry(h.as_ptr() as usize).or_default() += 1;
            }
        }
    }
    for i in 0..p.k {
        if let Some(h) = p.h(i) {
            if !h.is_heap_allocated() {
                continue;
            }
            let ptr = h.as_ptr() as usize;
            let blk = shim::with(|s| s.find(ptr).map(|b| s.blocks[b].clone()));
            match blk {
                None => v("dangling", format!("after {what}: slot {i} points to memory the crate never allocated")),
                Some(b) if !b.live => v("freed-under-reader", format!("after {what}: slot {i} still reads a buffer that was released")),
                Some(b) => {
                    let rc = verif_hooks::refcount(h).unwrap();
                    let n = handles[&ptr];
                    if rc != n {
                        v("refcount", format!("after {what}: buffer of slot {i} has reference count {rc} but {n} live handle(s)"));
                    }
                    let hdr = ptr - b.base;
                    if hdr + h.capacity() > b.size {
                        v("capacity-vs-block", format!("after {what}: slot {i} reports capacity {} but its block has only {} bytes after a {hdr}-byte header", h.capacity(), b.size - hdr));
                    }
                }
            }
        }
    }
    let live = shim::with(|s| s.live_blocks());
    if live != handles.len() {
        v(if live > handles.len() { "leak" } else { "missing-block" }, format!("after {what}: {live} live block(s) but {} buffer(s) referenced by handles", handles.len()));
    }
    if !p.sentinels_intact() {
        v("sentinel", format!("after {what}: bytes outside a handle were overwritten"));
    }
}

/// After closing the pool: nothing allocated, nothing damaged.
pub fn c03_closed(what: &str, out: &mut Vec<Viol>) {
    let (live, errs, audit) = shim::with(|s| (s.live_blocks(), s.errors.clone(), s.audit()));
    if live != 0 {
        out.push(Viol { prop: "C03", oracle: "leak-at-end", detail: format!("{what}: {live} block(s) still allocated after every handle was dropped") });
    }
    if let Some(e) = errs.first().or(audit.first()) {
        out.push(Viol { prop: "C03", oracle: "close", detail: format!("{what}: {e}") });
    }
}

// C08
pub fn c08(rec: &StepRec, _p: &Pool, out: &mut Vec<Viol>) {
    use Op::*;
    let mut v = |oracle: &'static str, detail: String| out.push(Viol { prop: "C08", oracle, detail });
    let (src, dst_pre, dst_post) = match rec.op {
        Clone(i) | FromRef(i) | ToLeanClone(i) => match rec.new_slot {
            Some(e) => (i as usize, None, rec.post[e].as_ref()),
            None => return,
        },
        CloneFrom(s, d) | Assign(s, d) => (s as usize, rec.pre[d as usize].as_ref(), rec.post[d as usize].as_ref()),
        _ => return,
    };
    if !succeeded(rec) {
        return;
    }
    let s = rec.pre[src].as_ref().unwrap();
    let c = match dst_post {
        Some(c) => c,
        None => return,
    };
    if rec.d.requests != 0 {
        v("allocates", format!("{:?} of a {:?} string of {} bytes issued {} allocator request(s)", rec.op, s.kind, s.len, rec.d.requests));
    }
    if c.kind != s.kind {
        v("kind", format!("{:?}: source is {:?}, copy is {:?}", rec.op, s.kind, c.kind));
    } else {
        match s.kind {
            Kind::Inline => {
                if c.raw != s.raw {
                    v("inline-bits", format!("{:?}: inline copy is not a bitwise copy", rec.op));
                }
            }
            _ => {
                if c.ptr != s.ptr {
                    v("pointer", format!("{:?}: copy of a {:?} string does not point at the same bytes", rec.op, s.kind));
                }
            }
        }
    }
    if c.text != s.text || c.len != s.len {
        v("text", format!("{:?}: copy differs from the original", rec.op));
    }
    if s.kind == Kind::Heap {
        let same_before = dst_pre.is_some_and(|o| o.kind == Kind::Heap && o.ptr == s.ptr);
        let want = if same_before { s.rc } else { s.rc + 1 };
        if c.rc != want {
            v("refcount", format!("{:?}: reference count {} -> {}, expected {}", rec.op, s.rc, c.rc, want));
        }
    }
}

// C09
pub fn c09(rec: &StepRec, _p: &Pool, out: &mut Vec<Viol>) {
    use Op::*;
    let mut v = |oracle: &'static str, detail: String| out.push(Viol { prop: "C09", oracle, detail });
    if !succeeded(rec) {
        return;
    }
    match rec.op {
        FromStr(_) | FromString(_) | Conv(..) => {
            let c = rec.post[rec.new_slot.unwrap()].as_ref().unwrap();
            // decoders that guess their capacity from the input length are outside the
            // "exactly one allocation, capacity == len" clause
            let exact_clause = !matches!(rec.op, Conv(1..=3, _) | Conv(8..=11, _));
            if c.len <= INLINE {
                if rec.d.requests != 0 || c.heap_flag || c.kind != Kind::Inline {
                    v("short-ctor", format!("{:?}/{:?}: text of {} bytes issued {} request(s), is_heap_allocated={}", rec.op, rec.form, c.len, rec.d.requests, c.heap_flag));
                }
            } else if exact_clause && (rec.d.allocs != 1 || rec.d.reallocs != 0 || c.cap != c.len || !c.heap_flag) {
                v("long-ctor", format!("{:?}/{:?}: text of {} bytes: {} alloc(s), {} realloc(s), capacity {}", rec.op, rec.form, c.len, rec.d.allocs, rec.d.reallocs, c.cap));
            }
        }
        Push(i, _) | PushStr(i, _) | Insert(i, _, _) | InsertStr(i, _, _) | Pop(i) | Remove(i, _) | Retain(i, _) | Truncate(i, _) | Clear(i) | TruncateAbs(i, _) | PushAscii(i, _) => {
            let (a, b) = match (rec.pre[i as usize].as_ref(), rec.post[i as usize].as_ref()) {
                (Some(a), Some(b)) => (a, b),
                _ => return,
            };
            if a.kind == Kind::Inline && b.len <= INLINE && (rec.d.requests != 0 || b.kind != Kind::Inline || b.heap_flag) {
                v("inline-edit", format!("{:?} on an inline string ({} -> {} bytes) issued {} request(s), now {:?}", rec.op, a.len, b.len, rec.d.requests, b.kind));
            }
        }
        _ => {}
    }
}

// C10
pub fn c10(rec: &StepRec, _p: &Pool, out: &mut Vec<Viol>) {
    use Op::*;
    let mut v = |oracle: &'static str, detail: String| out.push(Viol { prop: "C10", oracle, detail });
    if !texts(|t| t.statics_intact()) {
        v("static-bytes", format!("{:?} modified the bytes of a 'static text", rec.op));
    }
    // the first operation that writes or grows a static handle must leave the correct contents
    // in own storage: it may neither fail where the reference succeeds nor produce another text
    if let Some(t) = rec.op.target() {
        if let Some(a) = rec.pre[t].as_ref() {
            if a.kind == Kind::Static && !matches!(rec.op, Drop(_) | CloneFrom(..) | Assign(..)) {
                let agrees = match (&rec.lean, &rec.expect) {
                    (Outcome::Done(x), Expect::Done(y)) | (Outcome::Done(x), Expect::Absorb(y)) => x == y,
                    (Outcome::Panic(m), Expect::Panic) => m != ALLOC_MSG,
                    (Outcome::ReserveErr, Expect::Refuse) => true,
                    (Outcome::Panic(m), Expect::Refuse) => m == ALLOC_MSG,
                    _ => false,
                };
                if !agrees {
                    v("write-fails", format!("{:?} on a static handle ({} bytes): {:?}, the reference demands {:?}", rec.op, a.len, rec.lean, rec.expect));
                } else if let (Some(b), Some(m)) = (rec.post[t].as_ref(), _p.m[t].as_ref()) {
                    if b.text != m.as_bytes() {
                        v("write-text", format!("{:?} on a static handle: reads {:?}, must read {:?}", rec.op, String::from_utf8_lossy(&b.text), m));
                    } else if b.kind == Kind::Static && b.text != a.text {
                        let inside = b.ptr >= a.ptr && b.ptr + b.len <= a.ptr + a.cap.max(a.len);
                        if !inside {
                            v("static-moved", format!("{:?}: static handle now points elsewhere", rec.op));
                        }
                    }
                }
            }
        }
    }
    if !succeeded(rec) {
        return;
    }
    match rec.op {
        FromStatic(t) => {
            let c = rec.post[rec.new_slot.unwrap()].as_ref().unwrap();
            let (sp, sl) = texts(|x| (x.statics[t as usize].as_ptr() as usize, x.statics[t as usize].len()));
            if rec.d.requests != 0 {
                v("ctor-allocates", format!("from_static_str of {sl} bytes issued {} request(s)", rec.d.requests));
            }
            if sl > INLINE && (c.ptr != sp || c.kind != Kind::Static) {
                v("ctor-copies", format!("from_static_str of {sl} bytes does not point at the caller's bytes ({:?})", c.kind));
            }
        }
        Clone(i) | FromRef(i) | ToLeanClone(i) => {
            let s = rec.pre[i as usize].as_ref().unwrap();
            if s.kind == Kind::Static {
                let c = rec.post[rec.new_slot.unwrap()].as_ref().unwrap();
                if rec.d.requests != 0 || c.kind != Kind::Static || c.ptr != s.ptr {
                    v("clone", format!("{:?} of a static string: {} request(s), copy is {:?}", rec.op, rec.d.requests, c.kind));
                }
            }
        }
        Pop(i) | Truncate(i, _) | Clear(i) | TruncateAbs(i, _) => {
            let (a, b) = (rec.pre[i as usize].as_ref().unwrap(), rec.post[i as usize].as_ref().unwrap());
            if a.kind == Kind::Static && (rec.d.requests != 0 || b.kind != Kind::Static || b.ptr != a.ptr) {
                v("shorten", format!("{:?} on a static string: {} request(s), now {:?} ptr {}", rec.op, rec.d.requests, b.kind, if b.ptr == a.ptr { "same" } else { "moved" }));
            }
        }
        CloneFrom(..) | Assign(..) | Drop(_) => {}
        _ => {
            if let Some(t) = rec.op.target() {
                if let (Some(a), Some(b)) = (rec.pre[t].as_ref(), rec.post[t].as_ref()) {
                    if a.kind == Kind::Static && b.kind == Kind::Static && b.ptr != a.ptr {
                        v("static-moved", format!("{:?}: static handle now points elsewhere", rec.op));
                    }
                }
            }
        }
    }
}

// C11
pub fn c11(rec: &StepRec, _p: &Pool, out: &mut Vec<Viol>) {
    use Op::*;
    let mut v = |oracle: &'static str, detail: String| out.push(Viol { prop: "C11", oracle, detail });
    for (i, o) in rec.post.iter().enumerate() {
        if let Some(o) = o {
            if o.cap < o.len {
                v("cap-lt-len", format!("slot {i}: capacity {} < len {} after {:?}", o.cap, o.len, rec.op));
            }
        }
    }
    if !succeeded(rec) {
        return;
    }
    match rec.op {
        WithCap(_) | WithCapAbs(_) => {
            let n = match rec.op {
                WithCap(c) => texts(|t| t.caps[c as usize]),
                WithCapAbs(n) => n as usize,
                _ => 0,
            };
            let c = rec.post[rec.new_slot.unwrap()].as_ref().unwrap();
            if c.cap < n {
                v("with-capacity", format!("with_capacity({n}) reports capacity {}", c.cap));
            }
        }
        Reserve(i, _) => {
            let n = rec.additional.unwrap();
            let b = rec.post[i as usize].as_ref().unwrap();
            if b.cap < b.len + n {
                v("reserve-room", format!("after reserve({n}): capacity {} < len {} + {n}", b.cap, b.len));
            }
            if b.kind == Kind::Static || (b.kind == Kind::Heap && b.rc != 1) {
                v("reserve-exclusive", format!("after reserve({n}) the handle does not own its storage exclusively ({:?}, rc {})", b.kind, b.rc));
            }
        }
        Push(i, _) | PushStr(i, _) | Insert(i, _, _) | InsertStr(i, _, _) | AddAssign(i) | PushAscii(i, _) | WriteFmt(i) | ExtendChars(i) | ExtendStrs(i) | ExtendFiltered(i) => {
            // (appends through write!/extend are appends too: the whole appended text counts)
            let add = rec.additional.unwrap();
            let (a, b) = (rec.pre[i as usize].as_ref().unwrap(), rec.post[i as usize].as_ref().unwrap());
            let exclusive = a.kind == Kind::Inline || (a.kind == Kind::Heap && a.rc == 1);
            if exclusive && a.len + add <= a.cap && (rec.d.requests != 0 || b.kind != a.kind || (a.kind == Kind::Heap && b.ptr != a.ptr)) {
                v("in-capacity", format!("{:?}: {} + {add} bytes fit the reported capacity {} of an exclusively owned {:?} string, yet {} request(s), text {}", rec.op, a.len, a.cap, a.kind, rec.d.requests, if b.ptr == a.ptr { "in place" } else { "moved" }));
            }
        }
        _ => {}
    }
}

// C12
pub fn c12(rec: &StepRec, _p: &Pool, out: &mut Vec<Viol>) {
    use Op::*;
    let mut v = |oracle: &'static str, detail: String| out.push(Viol { prop: "C12", oracle, detail });
    if !succeeded(rec) {
        return;
    }
    let i = match rec.op {
        Push(i, _) | PushStr(i, _) | Insert(i, _, _) | InsertStr(i, _, _) | AddAssign(i) | Reserve(i, _) | PushAscii(i, _) => i as usize,
        _ => return,
    };
    let add = rec.additional.unwrap();
    let (a, b) = (rec.pre[i].as_ref().unwrap(), rec.post[i].as_ref().unwrap());
    if add == 0 || a.len + add <= a.cap || b.kind != Kind::Heap {
        return;
    }
    let lo = a.len + a.len / 2;
    let hi = lo.max(a.len + add);
    if b.cap < lo {
        v("too-small", format!("{:?} on {:?} (len {}, cap {}): new capacity {} < {} = len + len/2", rec.op, a.kind, a.len, a.cap, b.cap, lo));
    }
    if b.cap > hi {
        v("too-big", format!("{:?} on {:?} (len {}, cap {}): new capacity {} > max(len + len/2, len + {add}) = {}", rec.op, a.kind, a.len, a.cap, b.cap, hi));
    }
}

// C13
pub fn c13(rec: &StepRec, p: &Pool, out: &mut Vec<Viol>) {
    let mut v = |oracle: &'static str, detail: String| out.push(Viol { prop: "C13", oracle, detail });
    let m = match rec.shrink_m {
        Some(m) => m,
        None => return,
    };
    let i = rec.op.target().unwrap();
    if !succeeded(rec) {
        v("fails", format!("{:?} (m={m}) did not complete: {:?}", rec.op, rec.lean));
        return;
    }
    shrink_post(rec.pre[i].as_ref().unwrap(), rec.post[i].as_ref().unwrap(), m, &format!("{:?}", rec.op), &mut v);
    for j in 0..p.k {
        if let (Some(a), Some(b)) = (&rec.pre[j], &rec.post[j]) {
            if a.text != b.text {
                v("text", format!("{:?} (m={m}) changed the text of slot {j}", rec.op));
            }
        }
    }
}

pub fn shrink_post(a: &SlotObs, b: &SlotObs, m: usize, what: &str, v: &mut impl FnMut(&'static str, String)) {
    if a.text != b.text || a.len != b.len {
        v("text", format!("{what} (m={m}) changed the target's text"));
    }
    if b.cap > a.cap.max(INLINE) {
        v("grew", format!("{what} (m={m}) on {:?} rc {}: capacity {} -> {} (len {})", a.kind, a.rc, a.cap, b.cap, a.len));
    }
    if b.cap < b.len {
        v("below-len", format!("{what} (m={m}): capacity {} < len {}", b.cap, b.len));
    }
    if b.cap < m && a.cap >= m {
        v("below-m", format!("{what} (m={m}): capacity {} -> {} fell below m", a.cap, b.cap));
    }
    if a.kind == Kind::Heap && a.cap > a.len.max(m) {
        let want = a.len.max(m);
        if want <= INLINE {
            if b.kind != Kind::Inline {
                v("not-inline", format!("{what} (m={m}) on heap rc {} len {} cap {}: max(len,m) fits inline but result is {:?} cap {}", a.rc, a.len, a.cap, b.kind, b.cap));
            }
        } else if b.cap != want || b.kind != Kind::Heap {
            v("not-exact", format!("{what} (m={m}) on heap rc {} len {} cap {}: capacity {} instead of exactly {want}", a.rc, a.len, a.cap, b.cap));
        }
    }
    if a.kind != Kind::Heap && (b.kind != a.kind || b.cap != a.cap || b.ptr != a.ptr) {
        v("non-heap-changed", format!("{what} (m={m}) changed a {:?} string's storage", a.kind));
    }
}

// C17: state oracle over all ordered pairs of live handles
fn fixed_hash<T: std::hash::Hash + ?Sized>(t: &T) -> u64 {
    use std::hash::Hasher;
    let mut h = std::collections::hash_map::DefaultHasher::new();
    t.hash(&mut h);
    h.finish()
}

/// A hasher that is sensitive to the boundaries of the calls it receives (like FxHash or aHash,
/// unlike SipHash): equal transcripts of Hasher calls are what "hashes like the str" means for
/// every possible hasher.
#[derive(Default)]
struct CallHasher(u64);
impl CallHasher {
    fn mix(&mut self, tag: u8, bytes: &[u8]) {
        self.0 = (self.0 ^ tag as u64).wrapping_mul(0x100000001b3);
        for &b in bytes {
            self.0 = (self.0 ^ b as u64).wrapping_mul(0x100000001b3);
        }
        self.0 = (self.0 ^ (bytes.len() as u64) << 8).wrapping_mul(0x9e3779b97f4a7c15);
    }
}
impl std::hash::Hasher for CallHasher {
    fn finish(&self) -> u64 {
        self.0
    }
    fn write(&mut self, bytes: &[u8]) {
        self.mix(1, bytes)
    }
    fn write_u8(&mut self, i: u8) {
        self.mix(2, &[i])
    }
    fn write_usize(&mut self, i: usize) {
        self.mix(3, &i.to_le_bytes())
    }
    fn write_u32(&mut self, i: u32) {
        self.mix(4, &i.to_le_bytes())
    }
    fn write_u64(&mut self, i: u64) {
        self.mix(5, &i.to_le_bytes())
    }
}
fn call_hash<T: std::hash::Hash + ?Sized>(t: &T) -> u64 {
    use std::hash::Hasher;
    let mut h = CallHasher::default();
    t.hash(&mut h);
    h.finish()
}

pub fn c17_pair(a: &LeanString, sa: &str, b: &LeanString, sb: &str, what: &str, out: &mut Vec<Viol>) {
    let mut v = |oracle: &'static str, detail: String| out.push(Viol { prop: "C17", oracle, detail });
    if (a == b) != (sa == sb) || (a != b) != (sa != sb) {
        v("eq", format!("{what}: {sa:?} == {sb:?} gives {} on LeanString", a == b));
    }
    if a.cmp(b) != sa.cmp(sb) || a.partial_cmp(b) != sa.partial_cmp(sb) {
        v("ord", format!("{what}: cmp({sa:?}, {sb:?}) gives {:?} on LeanString", a.cmp(b)));
    }
    if (a < b) != (sa < sb) || (a >= b) != (sa >= sb) {
        v("ord-ops", format!("{what}: < / >= disagree for {sa:?}, {sb:?}"));
    }
    if (fixed_hash(a) == fixed_hash(b)) != (fixed_hash(sa) == fixed_hash(sb)) && sa == sb {
        v("hash-eq", format!("{what}: equal texts {sa:?} hash differently"));
    }
}

pub fn c17_single(a: &LeanString, sa: &str, what: &str, out: &mut Vec<Viol>) {
    let mut v = |oracle: &'static str, detail: String| out.push(Viol { prop: "C17", oracle, detail });
    if fixed_hash(a) != fixed_hash(sa) {
        v("hash-str", format!("{what}: Hash of LeanString {sa:?} differs from Hash of the str"));
    }
    if call_hash(a) != call_hash(sa) {
        v("hash-calls", format!("{what}: LeanString {sa:?} feeds the Hasher a different sequence of calls than the str does (a hasher that mixes per call, e.g. FxHash, then hashes them differently)"));
    }
    let owned = sa.to_string();
    let cow: Cow<str> = Cow::Borrowed(sa);
    let cow_o: Cow<str> = Cow::Owned(sa.to_string());
    let eqs = [*a == *sa, *sa == *a, *a == sa, sa == *a, *a == owned, owned == *a, *a == cow, cow == *a, *a == cow_o, cow_o == *a];
    if eqs.iter().any(|&e| !e) {
        v("eq-foreign", format!("{what}: {sa:?} is not equal to itself across str/&str/String/Cow: {eqs:?}"));
    }
    let other = format!("{sa}x");
    let neqs = [*a == *other.as_str(), *other.as_str() == *a, *a == other.as_str(), other.as_str() == *a, *a == other, other == *a, *a == Cow::Borrowed(other.as_str()), Cow::Borrowed(other.as_str()) == *a];
    if neqs.iter().any(|&e| e) {
        v("neq-foreign", format!("{what}: {sa:?} compares equal to {other:?}: {neqs:?}"));
    }
    if format!("{a}") != format!("{sa}") || format!("{a:?}") != format!("{sa:?}") || format!("{a:>10}|{a:<7}|{a:^9.3}") != format!("{sa:>10}|{sa:<7}|{sa:^9.3}") {
        v("format", format!("{what}: Display/Debug/padding of {sa:?} differ from str's"));
    }
    // conversions out of a LeanString are functions of the text as well
    let mut ext = String::from("<");
    ext.extend([a.clone(), a.clone()]);
    if String::from(a) != sa || String::from(a.clone()) != sa || ext != format!("<{sa}{sa}") {
        v("to-string", format!("{what}: String::from(&LeanString) / String::from(LeanString) / String::extend([LeanString]) of {sa:?} differ from the text"));
    }
    #[cfg(any(feature = "ls-std", feature = "ls-all"))]
    {
        let os: &std::ffi::OsStr = a.as_ref();
        if os != std::ffi::OsStr::new(sa) {
            v("as-ref-osstr", format!("{what}: AsRef<OsStr> of {sa:?} differs"));
        }
    }
    let br: &str = std::borrow::Borrow::borrow(a);
    let ar: &str = a.as_ref();
    let ab: &[u8] = a.as_ref();
    if br != sa || ar != sa || ab != sa.as_bytes() || &**a != sa {
        v("borrow", format!("{what}: Borrow/AsRef/Deref of {sa:?} differ"));
    }
}

pub fn c17_state(p: &Pool, what: &str, out: &mut Vec<Viol>) {
    for i in 0..p.k {
        if let (Some(a), Some(sa)) = (p.h(i), p.m[i].as_ref()) {
            c17_single(a, sa, what, out);
            for j in 0..p.k {
                if let (Some(b), Some(sb)) = (p.h(j), p.m[j].as_ref()) {
                    c17_pair(a, sa, b, sb, what, out);
                }
            }
        }
    }
    // lookups by &str in maps keyed by LeanString
    let mut hm: std::collections::HashMap<LeanString, usize> = std::collections::HashMap::new();
    let mut bm: std::collections::BTreeMap<LeanString, usize> = std::collections::BTreeMap::new();
    let mut sm: std::collections::BTreeMap<String, usize> = std::collections::BTreeMap::new();
    for i in 0..p.k {
        if let (Some(a), Some(sa)) = (p.h(i), p.m[i].as_ref()) {
            hm.insert(a.clone(), i);
            bm.insert(a.clone(), i);
            sm.insert(sa.clone(), i);
        }
    }
    for i in 0..p.k {
        if let Some(sa) = p.m[i].as_ref() {
            if hm.get(sa.as_str()) != sm.get(sa.as_str()) || bm.get(sa.as_str()) != sm.get(sa.as_str()) {
                out.push(Viol { prop: "C17", oracle: "map-lookup", detail: format!("{what}: lookup of {sa:?} by &str in HashMap/BTreeMap<LeanString,_> disagrees with the String-keyed map") });
            }
        }
    }
    if !bm.keys().map(|k| k.as_str()).eq(sm.keys().map(|k| k.as_str())) {
        out.push(Viol { prop: "C17", oracle: "map-order", detail: format!("{what}: BTreeMap<LeanString,_> iterates in a different order than BTreeMap<String,_>") });
    }
}

// C20 (state part): niche byte and Option round trip
pub fn c20_state(p: &Pool, what: &str, out: &mut Vec<Viol>) {
    let none: Option<LeanString> = None;
    let n = std::mem::size_of::<LeanString>();
    let none_tag = unsafe { *(&none as *const Option<LeanString> as *const u8).add(n - 1) };
    for i in 0..p.k {
        if let Some(h) = p.h(i) {
            let last = raw_of(h)[n - 1];
            if last == none_tag || last > 0xD1 {
                out.push(Viol { prop: "C20", oracle: "niche", detail: format!("{what}: slot {i} has last byte {last:#x} (None uses {none_tag:#x})") });
            }
            let o: Option<LeanString> = Some(h.clone());
            let ok = std::hint::black_box(&o).is_some() && o.as_ref().map(|x| x.as_str()) == Some(h.as_str());
            if !ok {
                out.push(Viol { prop: "C20", oracle: "option-roundtrip", detail: format!("{what}: Some(slot {i}) is not Some / text differs") });
            }
        }
    }
}
