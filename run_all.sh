#!/bin/bash
# runs every registered check (default tier quick) on the current tree and prints one line each
# usage: run_all.sh [tier] [evidence-dir]   (evidence-dir: write evidence/replays elsewhere)
tier=${1:-quick}
here=$(cd "$(dirname "$0")" && pwd)
cd "$here"
if [ -n "$2" ]; then export LSVERIF_EVIDENCE_DIR="$2/evidence" LSVERIF_REPLAY_DIR="$2/replays"; mkdir -p "$2/evidence" "$2/replays"; fi
mkdir -p "$here/target"
fail=0
for p in C01 C02 C03 C04 C05 C06 C07 C08 C09 C10 C11 C12 C13 C14 C15 C16 C17 C18 C19 C20; do
  s=$(date +%s)
  ./check $p --tier $tier > "$here/target/last-$p.out" 2> "$here/target/last-$p.err"; rc=$?
  echo "$p rc=$rc $(( $(date +%s) - s ))s $(tail -1 "$here/target/last-$p.err" | cut -c1-220)"
  [ $rc -ne 0 ] && fail=1
done
exit $fail
