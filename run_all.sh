#!/bin/bash
# runs every registered check (default tier quick) on the current tree and prints one line each
tier=${1:-quick}
cd /verif
fail=0
for p in C01 C02 C03 C04 C05 C06 C07 C08 C09 C10 C11 C12 C13 C14 C15 C16 C17 C18 C19 C20; do
  ./check $p --tier $tier > /verif/target/last-$p.out 2> /verif/target/last-$p.err; rc=$?
  echo "$p rc=$rc $(tail -1 /verif/target/last-$p.err | cut -c1-200)"
  [ $rc -ne 0 ] && fail=1
done
exit $fail
