#!/usr/bin/env python3
"""tools_seed.py <ID> <k> <checks,comma> [--demo-cmd "..."]: confirm a sub-agent mutant in its scratch worktree, run the given quick checks
against it in /repo (applied, then reverted), and store it under /verif/seeded/<ID>-m<k>/ with meta.json."""
import json, os, shutil, subprocess, sys, re
ID, K = sys.argv[1], sys.argv[2]
ROOT = "/tmp/mut"
PROP = ID
NAME = None
for i, a in enumerate(sys.argv):
    if a == "--root": ROOT = sys.argv[i + 1]
    if a == "--prop": PROP = sys.argv[i + 1]
    if a == "--name": NAME = sys.argv[i + 1]
checks = sys.argv[3].split(",")
demo_cmd = None
if "--demo-cmd" in sys.argv:
    demo_cmd = sys.argv[sys.argv.index("--demo-cmd") + 1]
W, O = f"{ROOT}/{ID}", f"{ROOT}/{ID}-out"
def sh(cmd, cwd=None, env=None):
    r = subprocess.run(cmd, shell=True, cwd=cwd, stdout=subprocess.PIPE, stderr=subprocess.STDOUT, text=True, env=env)
    return r.returncode, r.stdout
def clean():
    sh("git checkout -q -- . ; git clean -fdq -e target -e Cargo.lock", W)
env = dict(os.environ); env.pop("CARGO_TARGET_DIR", None)
clean()
demo = demo_cmd or f"cargo test --offline --test zz_demo{K}"
shutil.copy(f"{O}/demo{K}.rs", f"{W}/tests/zz_demo{K}.rs")
rc_clean, out = sh(demo, W, env)
rc, _ = sh(f"git apply {O}/patch{K}.diff", W)
assert rc == 0, "patch does not apply"
os.remove(f"{W}/tests/zz_demo{K}.rs")
rc_suite, out_suite = sh("cargo test --workspace --no-fail-fast --offline", W, env)
passed = sum(int(x) for x in re.findall(r"test result: \w+\. (\d+) passed", out_suite))
failed = sum(int(x) for x in re.findall(r"(\d+) failed;", out_suite))
rc_nd, _ = sh("cargo build --offline --no-default-features", W, env)
shutil.copy(f"{O}/demo{K}.rs", f"{W}/tests/zz_demo{K}.rs")
rc_mut, out_mut = sh(demo, W, env)
clean()
confirmed = rc_clean == 0 and rc_suite == 0 and failed == 0 and rc_mut != 0 and rc_nd == 0
print(f"{ID} m{K}: demo clean rc={rc_clean}; suite with patch rc={rc_suite} ({passed} passed, {failed} failed); no-default-features build rc={rc_nd}; demo with patch rc={rc_mut}; confirmed={confirmed}")
results = {}
if confirmed:
    rc, _ = sh(f"git -C /repo apply {O}/patch{K}.diff")
    assert rc == 0
    try:
        for c in checks:
            rc, out = sh(f"LSVERIF_EVIDENCE_DIR=/verif/target/mut-evidence LSVERIF_REPLAY_DIR=/verif/target/mut-replays /verif/check {c}", "/verif")
            sigs = sorted(set(re.findall(r"signature=(\S+)", out)))
            results[c] = {"exit": rc, "signatures": sigs[:6]}
            print(f"   check {c}: exit {rc} {sigs[:3]}")
    finally:
        sh("git -C /repo checkout -- .")
d = f"/verif/seeded/{NAME or (ID + chr(45) + chr(109) + K)}"
os.makedirs(d, exist_ok=True)
shutil.copy(f"{O}/patch{K}.diff", f"{d}/patch.diff")
shutil.copy(f"{O}/demo{K}.rs", f"{d}/demo.rs")
shutil.copy(f"{O}/notes{K}.md", f"{d}/notes.md")
meta = {
    "breaks_property": PROP, "source": "independent sub-agent given only the property text and a scratch worktree of /repo",
    "needs_to_manifest": open(f"{O}/notes{K}.md").read()[:1500],
    "confirmed": confirmed,
    "what_was_run": {
        "demo_cmd": demo.replace(f"zz_demo{K}", "demo"), "demo_on_unchanged_tree_exit": rc_clean, "demo_with_change_exit": rc_mut,
        "suite_cmd": "cargo test --workspace --no-fail-fast --offline", "suite_with_change": {"exit": rc_suite, "passed": passed, "failed": failed},
        "no_default_features_build_exit": rc_nd,
    },
    "quick_checks_with_change_applied": results,
    "detected_by": sorted(c for c, r in results.items() if r["exit"] == 1),
    "missed_by": sorted(c for c, r in results.items() if r["exit"] == 0),
}
json.dump(meta, open(f"{d}/meta.json", "w"), indent=1)
