//! loomc: exhaustive schedules of small concurrent programs over the real crate (DESIGN §5).
//!
//! Built with RUSTFLAGS="--cfg loom": the crate's reference count and fence are loom objects.
//! The shadow heap maps every heap block onto a `loom::cell::UnsafeCell`, and the crate's
//! access notes (`verif-hooks`) become `with` / `with_mut` on that cell, so that loom's vector
//! clocks report a buffer read, write, move or release that is not ordered after the accesses
//! it conflicts with - even on schedules where the bytes happen to look fine.
//!
//! loomc --set NAME --variant N --from A --to B --out FILE [--trace-file F]
//! loomc --count --set NAME                 (prints the number of programs of a set)
//! loomc --replay FILE
use lean_string::LeanString;
use lean_string::verif_hooks::{self, Access, HookTable};
use std::alloc::Layout;
use std::cell::RefCell;
use std::sync::atomic::{AtomicU64, Ordering};

// ---------------------------------------------------------------------------------------
// shadow heap with one loom cell per block

struct Block {
    base: usize,
    size: usize,
    align: usize,
    live: bool,
    cell: loom::cell::UnsafeCell<()>,
}
#[derive(Default)]
struct Shadow {
    blocks: Vec<Block>,
    errors: Vec<String>,
    allocs: u64,
    frees: u64,
}
thread_local! { static SH: RefCell<Shadow> = RefCell::new(Shadow::default()); }

fn find(s: &Shadow, addr: usize) -> Option<usize> {
    s.blocks.iter().rposition(|b| addr >= b.base && addr <= b.base + b.size)
}

unsafe fn h_alloc(l: Layout) -> *mut u8 {
    let p = unsafe { std::alloc::alloc(l) };
    unsafe { std::ptr::write_bytes(p, 0xA5, l.size()) };
    let cell = loom::cell::UnsafeCell::new(());
    SH.with(|s| {
        let mut s = s.borrow_mut();
        s.blocks.push(Block { base: p as usize, size: l.size(), align: l.align(), live: true, cell });
        s.allocs += 1;
    });
    p
}
unsafe fn h_dealloc(p: *mut u8, l: Layout) {
    let err = SH.with(|s| {
        let mut s = s.borrow_mut();
        s.frees += 1;
        match s.blocks.iter().rposition(|b| b.base == p as usize) {
            None => Some("dealloc of a pointer the crate never allocated".to_string()),
            Some(i) => {
                if !s.blocks[i].live {
                    return Some(format!("double free of block #{i}"));
                }
                let mut e = None;
                if s.blocks[i].size != l.size() || s.blocks[i].align != l.align() {
                    e = Some(format!("dealloc layout mismatch on block #{i}: allocated {}/{}, released {}/{}", s.blocks[i].size, s.blocks[i].align, l.size(), l.align()));
                }
                s.blocks[i].live = false;
                // poison and keep in quarantine: the memory is only returned at the next reset
                unsafe { std::ptr::write_bytes(p, 0xDD, s.blocks[i].size) };
                e
            }
        }
    });
    if let Some(e) = err {
        panic!("SHADOW-HEAP: {e}");
    }
}
unsafe fn h_realloc(p: *mut u8, l: Layout, new: usize) -> *mut u8 {
    // always move
    let np = unsafe { h_alloc(Layout::from_size_align(new, l.align()).unwrap()) };
    unsafe { std::ptr::copy_nonoverlapping(p, np, l.size().min(new)) };
    unsafe { h_dealloc(p, l) };
    np
}
fn h_note(a: Access, text_ptr: *const u8, start: isize, len: usize, site: &'static str) {
    let lo = (text_ptr as isize + start) as usize;
    let r = SH.with(|s| {
        let s = s.borrow();
        match find(&s, text_ptr as usize) {
            None => Err(format!("{a:?} at {site}: address is in no block the crate allocated")),
            Some(i) => {
                let b = &s.blocks[i];
                if !b.live {
                    Err(format!("{a:?} at {site}: block #{i} was already released (use after free)"))
                } else if lo < b.base || lo + len > b.base + b.size {
                    Err(format!("{a:?} at {site}: range outside block #{i}"))
                } else {
                    Ok(&b.cell as *const loom::cell::UnsafeCell<()>)
                }
            }
        }
    });
    match r {
        Err(e) => panic!("SHADOW-HEAP: {e}"),
        Ok(c) => {
            // SAFETY: blocks are only removed by `reset`, which runs when no thread is active
            let c = unsafe { &*c };
            match a {
                Access::Read => c.with(|_| ()),
                Access::Write => c.with_mut(|_| ()),
            }
        }
    }
}
static TABLE: HookTable = HookTable { alloc: h_alloc, realloc: h_realloc, dealloc: h_dealloc, note: h_note };

fn reset() {
    SH.with(|s| {
        let mut s = s.borrow_mut();
        for b in s.blocks.drain(..) {
            unsafe { std::alloc::dealloc(b.base as *mut u8, Layout::from_size_align(b.size, b.align).unwrap()) }
        }
        s.errors.clear();
        s.allocs = 0;
        s.frees = 0;
    });
}
fn finish(what: &str) {
    SH.with(|s| {
        let s = s.borrow();
        let live = s.blocks.iter().filter(|b| b.live).count();
        if live != 0 || !s.errors.is_empty() {
            panic!("SHADOW-HEAP: {what}: {live} block(s) still live after every handle was dropped; errors {:?}", s.errors);
        }
        for (i, b) in s.blocks.iter().enumerate() {
            if !b.live {
                let body = unsafe { std::slice::from_raw_parts(b.base as *const u8, b.size) };
                if body.iter().any(|&x| x != 0xDD) {
                    panic!("SHADOW-HEAP: {what}: block #{i} was written after its release");
                }
            }
        }
    });
}

// ---------------------------------------------------------------------------------------
// programs

#[derive(Clone, Copy, Debug, PartialEq, Eq)]
enum TOp {
    CloneDrop,
    Read,
    Push,
    PushLong,
    Insert0,
    Remove0,
    Retain,
    Truncate3,
    Pop,
    Clear,
    Reserve50,
    ShrinkFit,
    CloneFromG,
    ReadG,
    CloneGDrop,
    ShrinkTo25,
    TryReserveHuge,
}
const FULL: [TOp; 13] = [TOp::CloneDrop, TOp::Read, TOp::Push, TOp::PushLong, TOp::Insert0, TOp::Remove0, TOp::Retain, TOp::Truncate3, TOp::Pop, TOp::Clear, TOp::Reserve50, TOp::ShrinkFit, TOp::CloneFromG];
const WRITE6: [TOp; 6] = [TOp::CloneDrop, TOp::Push, TOp::Remove0, TOp::Truncate3, TOp::ShrinkFit, TOp::CloneFromG];
const EXTRA: [TOp; 4] = [TOp::ReadG, TOp::CloneGDrop, TOp::ShrinkTo25, TOp::TryReserveHuge];

const TEXT: &str = "0123456789abcdefghij";
const LONG: &str = "ABCDEFGHIJKLMNOPQRSTUVWXYZ0123456789";

fn run_ops(h: &mut LeanString, m: &mut String, prog: &[TOp], g: &'static LeanString, gm: &str) {
    for &op in prog {
        match op {
            TOp::CloneDrop => {
                let c = h.clone();
                assert_eq!(c.as_bytes(), m.as_bytes(), "clone differs");
                drop(c);
            }
            TOp::Read => assert_eq!(h.as_bytes(), m.as_bytes()),
            TOp::Push => {
                h.push('x');
                m.push('x');
            }
            TOp::PushLong => {
                h.push_str(LONG);
                m.push_str(LONG);
            }
            TOp::Insert0 => {
                h.insert(0, '€');
                m.insert(0, '€');
            }
            TOp::Remove0 => {
                if !m.is_empty() {
                    assert_eq!(h.remove(0), m.remove(0));
                }
            }
            TOp::Retain => {
                h.retain(|c| !c.is_ascii_digit());
                m.retain(|c| !c.is_ascii_digit());
            }
            TOp::Truncate3 => {
                h.truncate(3);
                m.truncate(3);
            }
            TOp::Pop => assert_eq!(h.pop(), m.pop()),
            TOp::Clear => {
                h.clear();
                m.clear();
            }
            TOp::Reserve50 => {
                h.reserve(50);
                assert!(h.capacity() >= h.len() + 50);
            }
            TOp::ShrinkFit => h.shrink_to_fit(),
            TOp::ShrinkTo25 => h.shrink_to(25),
            TOp::CloneFromG => {
                h.clone_from(g);
                *m = gm.to_string();
            }
            TOp::ReadG => assert_eq!(g.as_bytes(), gm.as_bytes(), "shared reference reads a wrong text"),
            TOp::CloneGDrop => {
                let c = g.clone();
                assert_eq!(c.as_bytes(), gm.as_bytes());
                drop(c);
            }
            TOp::TryReserveHuge => assert!(h.try_reserve(1 << 60).is_err()),
        }
        assert_eq!(h.as_bytes(), m.as_bytes(), "after {op:?}: thread reads a text its own operations did not produce");
    }
}

/// set-up variants
#[derive(Clone, Copy, Debug)]
struct Variant {
    /// capacity of the shared buffer (text is 20 bytes)
    cap: usize,
    /// thread 0's handle is truncated while shared: lengths differ on one buffer
    trunc: bool,
    /// the main thread keeps its own handle on the shared buffer while the threads run;
    /// otherwise the threads own every reference, so one thread's drop makes another unique
    main_keeps: bool,
    /// the `&'static LeanString` shared by reference lives on the same buffer as the handles
    /// (otherwise on a buffer of its own)
    g_same: bool,
}
const VARIANTS: [Variant; 6] = [
    Variant { cap: 20, trunc: false, main_keeps: false, g_same: false },
    Variant { cap: 30, trunc: false, main_keeps: false, g_same: false },
    Variant { cap: 100, trunc: false, main_keeps: false, g_same: false },
    Variant { cap: 30, trunc: true, main_keeps: false, g_same: false },
    Variant { cap: 30, trunc: false, main_keeps: true, g_same: false },
    Variant { cap: 30, trunc: false, main_keeps: true, g_same: true },
];
const GTEXT: &str = "GGGGGGGGGGGGGGGGGGGGGGGGGGG";

#[derive(Clone, Debug)]
struct Program {
    threads: Vec<Vec<TOp>>,
    main_ops: Vec<TOp>,
    pb: Option<usize>,
}

fn seqs(alpha: &[TOp], maxlen: usize, minlen: usize) -> Vec<Vec<TOp>> {
    let mut all: Vec<Vec<TOp>> = vec![];
    let mut cur: Vec<Vec<TOp>> = vec![vec![]];
    if minlen == 0 {
        all.push(vec![]);
    }
    for l in 1..=maxlen {
        let mut nx = vec![];
        for p in &cur {
            for &o in alpha {
                let mut q = p.clone();
                q.push(o);
                nx.push(q);
            }
        }
        if l >= minlen {
            all.extend(nx.iter().cloned());
        }
        cur = nx;
    }
    all
}

/// unordered pairs (threads are symmetric)
fn pairs(ps: &[Vec<TOp>]) -> Vec<Vec<Vec<TOp>>> {
    let mut v = vec![];
    for a in 0..ps.len() {
        for b in a..ps.len() {
            v.push(vec![ps[a].clone(), ps[b].clone()]);
        }
    }
    v
}

fn programs(set: &str) -> Vec<Program> {
    let mk = |threads: Vec<Vec<TOp>>, main_ops: Vec<TOp>, pb: Option<usize>| Program { threads, main_ops, pb };
    match set {
        // 2 threads x <=1 op, full alphabet + extras, unbounded
        "P2x1" => {
            let mut a: Vec<TOp> = FULL.to_vec();
            a.extend(EXTRA);
            pairs(&seqs(&a, 1, 0)).into_iter().map(|t| mk(t, vec![], None)).collect()
        }
        // 2 threads x <=2 ops, full alphabet, unbounded
        "P2x2" => pairs(&seqs(&FULL, 2, 0)).into_iter().map(|t| mk(t, vec![], None)).collect(),
        // the same with preemption bound 2 (quick tier)
        "P2x2b2" => pairs(&seqs(&FULL, 2, 0)).into_iter().map(|t| mk(t, vec![], Some(2))).collect(),
        // 2 threads x exactly 3 ops, write-heavy alphabet, bound 3
        "P2x3" => pairs(&seqs(&WRITE6, 3, 3)).into_iter().map(|t| mk(t, vec![], Some(3))).collect(),
        // 3 threads x 1 op, full alphabet, bound 3 / bound 2
        "P3x1" | "P3x1b2" => {
            let s = seqs(&FULL, 1, 1);
            let mut v = vec![];
            for a in 0..s.len() {
                for b in a..s.len() {
                    for c in b..s.len() {
                        v.push(mk(vec![s[a].clone(), s[b].clone(), s[c].clone()], vec![], Some(if set == "P3x1" { 3 } else { 2 })));
                    }
                }
            }
            v
        }
        // 3 threads x <=2 ops, write-heavy alphabet, bound 2
        "P3x2" => {
            let s = seqs(&WRITE6, 2, 1);
            let mut v = vec![];
            for a in 0..s.len() {
                for b in a..s.len() {
                    for c in b..s.len() {
                        v.push(mk(vec![s[a].clone(), s[b].clone(), s[c].clone()], vec![], Some(2)));
                    }
                }
            }
            v
        }
        // main thread mutates its own handle while 2 threads run 1 op each
        "MAIN" | "MAIN6" => {
            let alpha: &[TOp] = if set == "MAIN" { &FULL } else { &WRITE6 };
            let mut v = vec![];
            for t in pairs(&seqs(alpha, 1, 1)) {
                for &m in alpha {
                    v.push(mk(t.clone(), vec![m], None));
                }
            }
            v
        }
        _ => panic!("unknown program set {set}"),
    }
}

static EXECUTIONS: AtomicU64 = AtomicU64::new(0);

fn run_program(p: &Program, variant: usize) {
    let v = VARIANTS[variant];
    let p = p.clone();
    let mut b = loom::model::Builder::new();
    b.preemption_bound = p.pb;
    // a main thread that runs operations needs a handle
    let main_keeps = v.main_keeps || !p.main_ops.is_empty();
    b.check(move || {
        EXECUTIONS.fetch_add(1, Ordering::Relaxed);
        reset();
        let mut base = LeanString::with_capacity(v.cap);
        base.push_str(TEXT);
        let gm = if v.g_same { TEXT } else { GTEXT };
        let g: &'static LeanString = Box::leak(Box::new(if v.g_same { base.clone() } else { LeanString::from(GTEXT) }));
        let mut handles = vec![];
        for ti in 0..p.threads.len() {
            let mut h = base.clone();
            let mut m = TEXT.to_string();
            if v.trunc && ti == 0 {
                h.truncate(10);
                m.truncate(10);
            }
            handles.push((h, m));
        }
        let mut base = if main_keeps {
            Some(base)
        } else {
            drop(base);
            None
        };
        let mut joins = vec![];
        for ((mut h, mut m), prog) in handles.into_iter().zip(p.threads.iter().cloned()) {
            joins.push(loom::thread::spawn(move || {
                run_ops(&mut h, &mut m, &prog, g, gm);
                drop(h);
            }));
        }
        if !p.main_ops.is_empty() {
            // the main thread works on its own handle and lets go of it while the others run
            let mut bh = base.take().unwrap();
            let mut bm = TEXT.to_string();
            run_ops(&mut bh, &mut bm, &p.main_ops, g, gm);
            drop(bh);
        }
        for j in joins {
            j.join().unwrap();
        }
        // every thread is done: the counts must equal the handles that are left
        assert_eq!(g.as_bytes(), gm.as_bytes(), "the text behind the shared reference changed");
        let mut want_g = 1;
        if let Some(b) = &base {
            assert_eq!(b.as_bytes(), TEXT.as_bytes(), "the main thread's untouched handle changed");
            if b.is_heap_allocated() && b.as_ptr() == g.as_ptr() {
                want_g += 1;
            } else if b.is_heap_allocated() {
                assert_eq!(verif_hooks::refcount(b), Some(1), "reference count of the shared buffer after all threads finished");
            }
        }
        assert_eq!(verif_hooks::refcount(g), Some(want_g), "reference count behind the shared reference after all threads finished");
        drop(base);
        // SAFETY: no reference to G is left
        unsafe { drop(Box::from_raw(g as *const LeanString as *mut LeanString)) };
        finish("end of execution");
    });
}

fn arg(args: &[String], name: &str) -> Option<String> {
    args.iter().position(|a| a == name).and_then(|i| args.get(i + 1).cloned())
}

fn main() {
    verif_hooks::install(Some(&TABLE));
    let args: Vec<String> = std::env::args().collect();
    let set = arg(&args, "--set").unwrap_or_else(|| "P2x1".into());
    let progs = programs(&set);
    if args.iter().any(|a| a == "--count") {
        println!("{}", progs.len());
        return;
    }
    if args.iter().any(|a| a == "--describe") {
        let i: usize = arg(&args, "--from").and_then(|s| s.parse().ok()).unwrap_or(0);
        let p = &progs[i];
        println!("{}", serde_json::json!({"threads": format!("{:?}", p.threads), "main": format!("{:?}", p.main_ops), "preemption_bound": p.pb}));
        return;
    }
    let variant: usize = arg(&args, "--variant").and_then(|s| s.parse().ok()).unwrap_or(0);
    let from: usize = arg(&args, "--from").and_then(|s| s.parse().ok()).unwrap_or(0);
    let to: usize = arg(&args, "--to").and_then(|s| s.parse().ok()).unwrap_or(progs.len()).min(progs.len());
    let out = arg(&args, "--out");
    let trace = arg(&args, "--trace-file");
    let quiet = std::env::var_os("LOOMC_VERBOSE").is_none();
    if quiet {
        // silent, but the last panic message is left next to the trace file: if the process
        // aborts (a panic where unwinding is not possible) the driver can still say why
        let msg_file = trace.as_ref().map(|t| format!("{t}.msg"));
        std::panic::set_hook(Box::new(move |info| {
            if let Some(f) = &msg_file {
                let m = info.payload().downcast_ref::<String>().cloned().or_else(|| info.payload().downcast_ref::<&str>().map(|s| s.to_string())).unwrap_or_default();
                use std::io::Write;
                if let Ok(mut fh) = std::fs::OpenOptions::new().create(true).append(true).open(f) {
                    let _ = writeln!(fh, "{}", m.replace('\n', " ").chars().take(400).collect::<String>());
                }
            }
        }));
    }
    let t0 = std::time::Instant::now();
    let mut done = 0usize;
    let mut failure: Option<serde_json::Value> = None;
    let mut max_exec = 0u64;
    let mut sample = vec![];
    for i in from..to {
        let p = &progs[i];
        if let Some(t) = &trace {
            let _ = std::fs::write(t, format!("{i}"));
        }
        let e0 = EXECUTIONS.load(Ordering::Relaxed);
        let r = std::panic::catch_unwind(|| run_program(p, variant));
        let n = EXECUTIONS.load(Ordering::Relaxed) - e0;
        max_exec = max_exec.max(n);
        if sample.len() < 3 {
            sample.push(serde_json::json!({"program": i, "threads": format!("{:?}", p.threads), "main": format!("{:?}", p.main_ops), "executions": n}));
        }
        match r {
            Ok(()) => done += 1,
            Err(e) => {
                let msg = e.downcast_ref::<String>().cloned().or_else(|| e.downcast_ref::<&str>().map(|s| s.to_string())).unwrap_or_else(|| "<panic>".into());
                failure = Some(serde_json::json!({"set": set, "variant": variant, "program": i, "threads": format!("{:?}", p.threads), "main": format!("{:?}", p.main_ops), "preemption_bound": p.pb, "iteration": n, "message": msg}));
                // loom's scheduler state is not trustworthy after a failed model: stop here,
                // the driver starts a fresh process for the rest of the range
                break;
            }
        }
    }
    let res = serde_json::json!({
        "set": set, "variant": variant, "from": from, "to": to, "programs_done": done,
        "next": from + done + if failure.is_some() { 1 } else { 0 },
        "executions": EXECUTIONS.load(Ordering::Relaxed), "max_executions_per_program": max_exec,
        "variants": VARIANTS.len(), "failure": failure, "secs": t0.elapsed().as_secs_f64(), "samples": sample,
    });
    match out {
        Some(o) => std::fs::write(o, res.to_string()).unwrap(),
        None => println!("{res}"),
    }
}
