#!/bin/bash
# usage: tools_mut.sh <patch> <prop>...   applies a patch to /repo, runs the quick checks, reverts
patch=$(readlink -f "$1"); shift
git -C /repo apply "$patch" || { echo "APPLY FAILED"; exit 2; }
for p in "$@"; do
  out=$(LSVERIF_EVIDENCE_DIR=/verif/target/mut-evidence LSVERIF_REPLAY_DIR=/verif/target/mut-replays /verif/check $p 2>/dev/null); rc=$?
  echo "$out" | cut -c1-260 | head -3
  echo "  -> $p rc=$rc"
done
git -C /repo checkout -- .
